"""CrossHair conditions for C07 (canonical serialisation).  Each `cond_*` returns True when the property holds on its
arguments; CrossHair searches for arguments making it return False (or raise).  The reference serialiser (xhair/ref.py)
is written from the published format and is injective by construction, so `canonserialize(v) == ref_canon(v)` within the
bound gives frozen format, determinism, order independence and injectivity at once."""
import json
from typing import Dict, List, Optional, Union
from conda_content_trust.common import canonserialize
from xhair.ref import ref_canon

Leaf = Union[None, bool, int, float, str]


def _small(v, n):
    return not isinstance(v, str) or len(v) <= n


def cond_string_frozen(s: str) -> bool:
    """
    pre: len(s) <= 3
    post: _
    """
    return canonserialize(s) == ref_canon(s)


def cond_leaf_frozen(v: Leaf) -> bool:
    """
    pre: _small(v, 2)
    post: _
    """
    return canonserialize(v) == ref_canon(v)


def cond_int_frozen(i: int) -> bool:
    """
    post: _
    """
    return canonserialize(i) == ref_canon(i) and canonserialize([i]) == ref_canon([i])


def cond_float_frozen(f: float) -> bool:
    """
    post: _
    """
    return canonserialize(f) == ref_canon(f) and canonserialize({'k': f}) == ref_canon({'k': f})


def cond_whole_float_is_not_int(i: int) -> bool:
    """
    pre: -2**53 < i < 2**53
    post: _
    """
    f = float(i)
    return canonserialize(f) != canonserialize(i) and canonserialize([f]) == ref_canon([f])


def cond_list_frozen(a: Leaf, b: Leaf) -> bool:
    """
    pre: _small(a, 1) and _small(b, 1)
    post: _
    """
    return canonserialize([a, [b]]) == ref_canon([a, [b]]) and canonserialize([]) == b'[]'


def cond_dict_frozen_and_order_independent(k1: str, k2: str, a: Leaf, b: Leaf) -> bool:
    """
    pre: len(k1) <= 2 and len(k2) <= 2 and k1 != k2 and _small(a, 1) and _small(b, 1)
    post: _
    """
    d1 = {k1: a, k2: {k1: b}}
    d2 = {k2: {k1: b}, k1: a}
    return canonserialize(d1) == ref_canon(d1) == canonserialize(d2)


def cond_injective_strings(s: str, t: str) -> bool:
    """
    pre: len(s) <= 2 and len(t) <= 2 and s != t
    post: _
    """
    return canonserialize(s) != canonserialize(t) and canonserialize({'k': s}) != canonserialize({'k': t})


def cond_injective_leaves(a: Leaf, b: Leaf) -> bool:
    """
    pre: _small(a, 1) and _small(b, 1)
    post: _
    """
    same = (type(a) is type(b)) and (a == b or (a != a and b != b)) and repr(a) == repr(b)
    return same or canonserialize(a) != canonserialize(b)


def cond_parse_roundtrip_string(s: str) -> bool:
    """
    pre: len(s) <= 3
    post: _
    """
    c = canonserialize({'k': [s]})
    back = json.loads(c)
    return back == {'k': [s]} and canonserialize(back) == c


def cond_parse_roundtrip_numbers(i: int, f: float, b: bool) -> bool:
    """
    post: _
    """
    v = {'i': i, 'f': f, 'b': b, 'n': None}
    c = canonserialize(v)
    back = json.loads(c)
    ok = type(back['i']) is int and back['i'] == i and type(back['f']) is float and (back['f'] == f or f != f) and back['b'] is b and back['n'] is None
    return ok and canonserialize(back) == c


def cond_ascii_only(s: str) -> bool:
    """
    pre: len(s) <= 2
    post: _
    """
    c = canonserialize([s])
    return all(x < 128 for x in c) and c.decode('ascii').encode('utf-8') == c


def cond_dict_inside_list_sorted(k1: str, k2: str, a: Leaf, b: Leaf) -> bool:
    """
    pre: len(k1) <= 2 and len(k2) <= 2 and k1 != k2 and _small(a, 1) and _small(b, 1)
    post: _
    """
    d1 = {'l': [{k1: a, k2: b}], 't': [[{k2: b, k1: a}]]}
    d2 = {'t': [[{k1: a, k2: b}]], 'l': [{k2: b, k1: a}]}
    return canonserialize(d1) == ref_canon(d1) == canonserialize(d2) and canonserialize([{k1: a, k2: b}]) == canonserialize([{k2: b, k1: a}])


def cond_written_file_is_canonical(i: int) -> bool:
    """
    pre: 0 <= i <= 3
    post: _
    """
    from xhair import c08_roundtrip as R
    # (helpers without contracts: CrossHair replaces calls to contracted functions by their postcondition)
    return R._overwrite_equal_but_different(i) and R._overwrite_longer_by_shorter('a', i)


def cond_fixed_keys_in_list_sorted(a: int, b: int) -> bool:
    """
    post: _
    """
    v = [{'b': a, 'a': b}, {'k': [{'z': a, 'y': [b], 'x': None}]}]
    return canonserialize(v) == ref_canon(v) and canonserialize({'o': ({'d': a, 'c': b},)}) == ref_canon({'o': [{'d': a, 'c': b}]})


def cond_codepoints_frozen_composing_pair(c1: int, c2: int) -> bool:
    """
    pre: 0x41 <= c1 <= 0x17F and 0x300 <= c2 <= 0x36F
    post: _
    """
    # strings given by their code points (integers stay symbolic where a C-level text function would concretise a str):
    # base letter followed by a combining mark -- the domain on which Unicode normalisation / case mapping rewrites text
    s = chr(c1) + chr(c2)
    return canonserialize(s) == ref_canon(s) and canonserialize({s: [s]}) == ref_canon({s: [s]})


def cond_codepoints_injective_with_precomposed(c1: int, c2: int, c3: int) -> bool:
    """
    pre: 0x41 <= c1 <= 0x7A and 0x300 <= c2 <= 0x30C and 0xC0 <= c3 <= 0x17F
    post: _
    """
    # a decomposed and a precomposed spelling are different JSON values: their canonical bytes must differ
    return canonserialize(chr(c1) + chr(c2)) != canonserialize(chr(c3)) and canonserialize({chr(c3): 0, chr(c1) + chr(c2): 1}) == ref_canon({chr(c3): 0, chr(c1) + chr(c2): 1})


def cond_codepoint_frozen_compatibility_blocks(c: int) -> bool:
    """
    pre: 0xA0 <= c <= 0xFF or 0x2100 <= c <= 0x214F or 0x1100 <= c <= 0x11FF or 0xFB00 <= c <= 0xFB06 or 0xFF00 <= c <= 0xFFEF
    post: _
    """
    # singleton / compatibility code points (Latin-1 supplement, letterlike symbols, Hangul jamo, ligatures, full-width forms)
    s = 'a' + chr(c)
    return canonserialize([s]) == ref_canon([s]) and json.loads(canonserialize([s])) == [s]
