"""CrossHair conditions for C08: the REAL write_metadata_to_file / load_metadata_from_file with the file layer redirected
to memory (the functions look `open` up in conda_content_trust.common's globals)."""
import io
from typing import Union
import conda_content_trust.common as C

Leaf = Union[None, bool, int, float, str]
_FILES = {}


class _W(io.BytesIO):
    def __init__(self, name):
        super().__init__()
        self._name = name

    def close(self):
        _FILES[self._name] = self.getvalue()
        super().close()


def _open(name, mode='r', *a, **k):
    if 'w' in mode:
        _FILES[name] = b''
        return _W(name)
    if name not in _FILES:
        raise FileNotFoundError(2, 'No such file or directory', name)
    return io.BytesIO(_FILES[name])


C.open = _open


def _same(a, b):
    if type(a) is not type(b):
        return False
    if isinstance(a, dict):
        return list(sorted(a)) == list(sorted(b)) and all(_same(a[k], b[k]) for k in a)
    if isinstance(a, list):
        return len(a) == len(b) and all(_same(x, y) for x, y in zip(a, b))
    if isinstance(a, float):
        return a == b or (a != a and b != b)
    return a == b


def _small(v, n):
    return not isinstance(v, str) or len(v) <= n


def cond_roundtrip_leaves(a: Leaf, b: Leaf) -> bool:
    """
    pre: _small(a, 2) and _small(b, 2)
    post: _
    """
    _FILES.clear()
    v = {'signatures': {}, 'signed': {'x': a, 'l': [b]}}
    C.write_metadata_to_file(v, 'f')
    raw = _FILES['f']
    back = C.load_metadata_from_file('f')
    return raw == C.canonserialize(v) and _same(back, v) and C.canonserialize(back) == raw


def cond_roundtrip_whole_floats(i: int) -> bool:
    """
    pre: -10**15 < i < 10**15
    post: _
    """
    _FILES.clear()
    v = {'threshold': float(i), 'version': i}
    C.write_metadata_to_file(v, 'g')
    back = C.load_metadata_from_file('g')
    return _same(back, v) and C.canonserialize(back) == _FILES['g']


def cond_overwrite_equal_but_different(i: int) -> bool:
    """
    pre: 0 <= i <= 3
    post: _
    """
    _FILES.clear()
    C.write_metadata_to_file({'threshold': float(i), 'final': bool(i)}, 'h')
    v2 = {'threshold': i, 'final': i}
    C.write_metadata_to_file(v2, 'h')
    return _FILES['h'] == C.canonserialize(v2)
