"""CrossHair conditions for C08: the REAL write_metadata_to_file / load_metadata_from_file with the file layer redirected
to memory (the functions look `open` up in conda_content_trust.common's globals)."""
import io
from typing import Union
import conda_content_trust.common as C

Leaf = Union[None, bool, int, float, str]
_FILES = {}


class _W(io.BytesIO):
    def __init__(self, name):
        super().__init__()
        self._name = name

    def close(self):
        _FILES[self._name] = self.getvalue()
        super().close()


def _open(name, mode='r', *a, **k):
    if 'w' in mode:
        _FILES[name] = b''
        return _W(name)
    if name not in _FILES:
        raise FileNotFoundError(2, 'No such file or directory', name)
    return io.BytesIO(_FILES[name])


import os as _os
if not _os.environ.get('CCT_XH_REALFILES'):
    # symbolic search: file layer in memory.  Replays (xhair/run.py) set CCT_XH_REALFILES=1 and use REAL files in a scratch
    # working directory, so that a counterexample is only reported when it reproduces on the real file system (code that
    # consults os.stat / os.path / os.replace is then served correctly instead of tripping over the in-memory layer)
    C.open = _open


def _content(name):
    """bytes of the file as the code under test left it: the in-memory layer, or -- if the code bypassed `open` -- the
    real file in the scratch working directory"""
    import os
    if name in _FILES:
        return _FILES[name]
    if os.path.exists(name):
        with io.open(name, 'rb') as f:
            return f.read()
    raise FileNotFoundError(name)


def _reset():
    import os
    _FILES.clear()
    for n in ('f', 'g', 'h', 'e'):
        if os.path.exists(n):
            os.remove(n)


def _same(a, b):
    if type(a) is not type(b):
        return False
    if isinstance(a, dict):
        return list(sorted(a)) == list(sorted(b)) and all(_same(a[k], b[k]) for k in a)
    if isinstance(a, list):
        return len(a) == len(b) and all(_same(x, y) for x, y in zip(a, b))
    if isinstance(a, float):
        return a == b or (a != a and b != b)
    return a == b


def _small(v, n):
    return not isinstance(v, str) or len(v) <= n


def _roundtrip_leaves(a, b):
    _reset()
    v = {'signatures': {}, 'signed': {'x': a, 'l': [b]}}
    C.write_metadata_to_file(v, 'f')
    raw = _content('f')
    back = C.load_metadata_from_file('f')
    return raw == C.canonserialize(v) and _same(back, v) and C.canonserialize(back) == raw


def cond_roundtrip_leaves(a: Leaf, b: Leaf) -> bool:
    """
    pre: _small(a, 2) and _small(b, 2)
    post: _
    """
    return _roundtrip_leaves(a, b)



def _roundtrip_whole_floats(i):
    _reset()
    v = {'threshold': float(i), 'version': i}
    C.write_metadata_to_file(v, 'g')
    back = C.load_metadata_from_file('g')
    return _same(back, v) and C.canonserialize(back) == _content('g')


def cond_roundtrip_whole_floats(i: int) -> bool:
    """
    pre: -10**15 < i < 10**15
    post: _
    """
    return _roundtrip_whole_floats(i)



def _overwrite_equal_but_different(i):
    _reset()
    C.write_metadata_to_file({'threshold': float(i), 'final': bool(i)}, 'h')
    v2 = {'threshold': i, 'final': i}
    C.write_metadata_to_file(v2, 'h')
    return _content('h') == C.canonserialize(v2)


def cond_overwrite_equal_but_different(i: int) -> bool:
    """
    pre: 0 <= i <= 3
    post: _
    """
    return _overwrite_equal_but_different(i)



def _overwrite_longer_by_shorter(a, i):
    _reset()
    C.write_metadata_to_file({'signatures': {}, 'signed': {'padding': 'x' * 40, 'a': a, 'n': [i, i, i]}}, 'h')
    v2 = {'signed': i}
    C.write_metadata_to_file(v2, 'h')
    return _content('h') == C.canonserialize(v2) and C.load_metadata_from_file('h') == v2


def cond_overwrite_longer_by_shorter(a: str, i: int) -> bool:
    """
    pre: len(a) <= 2 and 0 <= i <= 9
    post: _
    """
    return _overwrite_longer_by_shorter(a, i)



def _envelope_roundtrip_keeps_signature_map(k, a):
    _reset()
    v = {'signatures': {k: {'signature': 'ab' * 64}, 'AB' + k: {'signature': 'cd' * 64}}, 'signed': {'x': a}}
    C.write_metadata_to_file(v, 'e')
    back = C.load_metadata_from_file('e')
    return _same(back, v) and C.canonserialize(back) == _content('e')



def cond_envelope_roundtrip_keeps_signature_map(k: str, a: Leaf) -> bool:
    """
    pre: len(k) <= 3 and _small(a, 1)
    post: _
    """
    return _envelope_roundtrip_keeps_signature_map(k, a)

