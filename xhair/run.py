"""Engine B driver: run every cond_* function of a condition file through `crosshair check` (one process per condition,
in parallel, under a wall-clock limit), parse the verdicts, replay counterexamples on the real code in a fresh process."""
import ast
import json
import os
import re
import subprocess
import sys
import time
from concurrent.futures import ThreadPoolExecutor

HERE = os.path.dirname(os.path.dirname(os.path.abspath(__file__)))


def conditions(path):
    tree = ast.parse(open(os.path.join(HERE, path)).read())
    return [(n.name, n.lineno + 1) for n in tree.body if isinstance(n, ast.FunctionDef) and n.name.startswith('cond_')]


def _env():
    env = dict(os.environ)
    env['PYTHONPATH'] = os.pathsep.join(x for x in (os.environ.get('CCT_VERIF_REPO'), HERE, env.get('PYTHONPATH', '')) if x)
    env.pop('PYTHONIOENCODING', None)
    env['PYTHONHASHSEED'] = '0'
    return env


def check_one(path, name, line, budget):
    t0 = time.time()
    import tempfile, shutil
    scratch = tempfile.mkdtemp(prefix='cct-verif-xh-', dir='/var/tmp')     # code under test may do real file I/O: never in /verif
    cmd = [sys.executable, '-m', 'crosshair', 'check', '--report_all', '--per_condition_timeout', str(budget), '-v', f'{os.path.join(HERE, path)}:{line}']
    try:
        try:
            p = subprocess.run(cmd, cwd=scratch, env=_env(), capture_output=True, text=True, timeout=budget * 3 + 60)
        finally:
            shutil.rmtree(scratch, ignore_errors=True)
        out, err = p.stdout, p.stderr
    except subprocess.TimeoutExpired as e:
        out, err = (e.stdout or b'').decode() if isinstance(e.stdout, bytes) else (e.stdout or ''), ''
        return dict(name=name, status='timeout', paths=0, wall_s=round(time.time() - t0, 1), output=out[-300:])
    paths = len(re.findall(r'analyze_calltree\(\) Iteration', err))
    status, cex = 'unknown', None
    for l in out.splitlines():
        if 'error:' in l:
            status = 'counterexample'
            m = re.search(r'when calling (\w+)\((.*?)\)(?: \(which (?:returns|raises)|\s*$)', l)
            cex = dict(line=l.strip()[:600], call=(m.group(1), m.group(2)) if m else None)
            break
        if 'Confirmed over all paths' in l:
            status = 'confirmed'
        elif 'Not confirmed' in l and status != 'confirmed':
            status = 'not confirmed'
        elif 'Unable to meet precondition' in l:
            status = 'unable to meet precondition'
    return dict(name=name, status=status, paths=paths, wall_s=round(time.time() - t0, 1), cex=cex, output=out[-300:])


REPLAY = '''
import sys, json
sys.path.insert(0, %r)
import importlib
mod = importlib.import_module(%r)
nan, inf = float('nan'), float('inf')
f = getattr(mod, %r)
try:
    r = eval('f(' + %r + ')')
    print(json.dumps({'result': bool(r)}))
except Exception as e:
    print(json.dumps({'raised': type(e).__name__ + ': ' + str(e)[:200]}))
'''


def replay(path, call):
    modname = path[:-3].replace('/', '.')
    code = REPLAY % (HERE, modname, call[0], call[1])
    import tempfile, shutil
    scratch = tempfile.mkdtemp(prefix='cct-verif-xh-', dir='/var/tmp')
    try:
        p = subprocess.run([sys.executable, '-c', code], cwd=scratch, env=dict(_env(), CCT_XH_REALFILES='1'), capture_output=True, text=True, timeout=120)
    finally:
        shutil.rmtree(scratch, ignore_errors=True)
    try:
        return json.loads(p.stdout.strip().splitlines()[-1])
    except Exception:
        return {'replay_error': (p.stdout + p.stderr)[-400:]}


def run_conditions(res, path, budget, module=None, jobs=16):
    """adds the CrossHair verdicts to a framework Result (obligations / discharged / violations / inconclusive)"""
    conds = conditions(path)
    with ThreadPoolExecutor(jobs) as ex:
        results = list(ex.map(lambda c: check_one(path, c[0], c[1], budget), conds))
    summary = []
    for r in results:
        res.obligations += 1
        entry = dict(condition=r['name'], status=r['status'], paths_explored=r['paths'], wall_s=r['wall_s'])
        res.paths += r['paths']
        res.forks += r['paths']
        if r['status'] == 'confirmed':
            res.discharged += 1
        elif r['status'] == 'counterexample' and r['cex'] and r['cex']['call']:
            rp = replay(path, r['cex']['call'])
            entry['counterexample'] = r['cex']['line']
            entry['replay'] = rp
            if rp.get('result') is False or 'raised' in rp:
                res.violations.append(dict(unit='crosshair:' + path, obligation=r['name'], outcome='counterexample',
                                           case=dict(scenario='crosshair', file=path, function=r['cex']['call'][0], args=r['cex']['call'][1]),
                                           observed=rp, why=f'{r["name"]}({r["cex"]["call"][1][:200]}) is {"False" if rp.get("result") is False else rp.get("raised")} on the real code', count=1))
            else:
                # CrossHair's models of the environment (float repr, the in-memory file layer of c08_roundtrip) are approximations:
                # a counterexample that does not reproduce on the real code / real files is no evidence of anything
                entry['note'] = 'counterexample did not reproduce on the real code: discarded (inconclusive for this condition)'
                res.inconclusive.append(dict(unit='crosshair:' + path, reason=f'{r["name"]}: CrossHair counterexample did not reproduce on the real code ({str(r["cex"].get("line"))[-160:]})'))
        else:
            # Not confirmed / unable to meet precondition / timeout: bug hunting only, nothing is claimed for this condition
            entry['note'] = 'no counterexample within the time budget; NOT a proof (CrossHair did not exhaust the paths)'
        summary.append(entry)
        if len(res.samples) < 16:
            res.samples.append(dict(unit='crosshair', condition=r['name'], status=r['status'], paths=r['paths']))
    res.extra.setdefault('crosshair', []).extend(summary)
    res.units.append(dict(name='crosshair:' + path, conditions=len(conds), budget_s=budget,
                          confirmed=sum(1 for r in results if r['status'] == 'confirmed'),
                          searched_without_counterexample=sum(1 for r in results if r['status'] in ('not confirmed', 'unknown', 'timeout', 'unable to meet precondition')),
                          counterexamples=sum(1 for r in results if r['status'] == 'counterexample')))
    from pysym.framework import log
    for r in results:
        log(f'crosshair {r["name"]}: {r["status"]} ({r["paths"]} paths, {r["wall_s"]}s)')
    return results
