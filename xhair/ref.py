"""Reference serializer written from the published format (independent of json)."""
_ESC = {'"': '\\"', '\\': '\\\\', '\n': '\\n', '\r': '\\r', '\t': '\\t', '\b': '\\b', '\f': '\\f'}
def _s(s):
    out = ['"']
    for ch in s:
        o = ord(ch)
        if ch in _ESC: out.append(_ESC[ch])
        elif 0x20 <= o <= 0x7e: out.append(ch)
        elif o < 0x10000: out.append('\\u%04x' % o)
        else:
            o -= 0x10000
            out.append('\\u%04x\\u%04x' % (0xD800 | (o >> 10), 0xDC00 | (o & 0x3FF)))
    out.append('"')
    return ''.join(out)
def _v(v, ind):
    if v is None: return 'null'
    if v is True: return 'true'
    if v is False: return 'false'
    if isinstance(v, int): return int.__repr__(v)
    if isinstance(v, float):
        if v != v: return 'NaN'
        if v == float('inf'): return 'Infinity'
        if v == -float('inf'): return '-Infinity'
        return float.__repr__(v)
    if isinstance(v, str): return _s(v)
    pad = '  ' * (ind + 1)
    if isinstance(v, (list, tuple)):
        if not v: return '[]'
        return '[\n' + ',\n'.join(pad + _v(x, ind + 1) for x in v) + '\n' + '  ' * ind + ']'
    if isinstance(v, dict):
        if not v: return '{}'
        return '{\n' + ',\n'.join(pad + _s(k) + ': ' + _v(v[k], ind + 1) for k in sorted(v)) + '\n' + '  ' * ind + '}'
    raise TypeError
def ref_canon(v): return _v(v, 0).encode('ascii')
