#!/bin/sh
# Build the overlay venv the checks run in (offline): /venv's python and
# site-packages (cryptography, the editable install of /repo) plus z3-solver,
# cvc5 and crosshair-tool from the local wheelhouse.  Idempotent.
set -e
HERE="$(cd "$(dirname "$0")" && pwd)"
VENV="$HERE/.venv"
if [ -x "$VENV/bin/python" ] && "$VENV/bin/python" -c "import z3, crosshair, cryptography" 2>/dev/null; then
    exit 0
fi
rm -rf "$VENV"
/venv/bin/python -m venv "$VENV"
SP="$("$VENV/bin/python" -c 'import sysconfig; print(sysconfig.get_paths()["purelib"])')"
printf "import site; site.addsitedir('/venv/lib/python3.12/site-packages')\n" > "$SP/_overlay.pth"
PIP_NO_INDEX=1 "$VENV/bin/python" -m pip install -q --no-index --find-links /opt/veriftools/wheels z3-solver crosshair-tool cvc5 >/dev/null
"$VENV/bin/python" -c "import z3, crosshair, cryptography; print('verif venv ok: z3', z3.get_version_string())"
