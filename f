{
  "signatures": {},
  "signed": {
    "l": [
      10
    ],
    "x": null
  }
}