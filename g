{
  "threshold": 0.0,
  "version": 0
}