"""pysym: symbolic values.

Every class here stands for a Python value whose content is (partly) described
by z3 terms.  ``pytype`` is the Python type the value has at run time; the
interpreter uses it to answer isinstance/type questions and to produce the
TypeErrors the real interpreter would produce.
"""
import z3

F64 = z3.Float64()
_MEMO = {}          # formula memo, keyed by template symbol names (identical across paths)


def memo(key, build):
    r = _MEMO.get(key)
    if r is None:
        r = _MEMO[key] = build()
    return r


def zb(p):
    """python bool | z3 Bool -> z3 Bool"""
    return z3.BoolVal(p) if isinstance(p, bool) else p


def zand(xs):
    xs = [zb(x) for x in xs]
    xs = [x for x in xs if not z3.is_true(x)]
    if not xs:
        return z3.BoolVal(True)
    if any(z3.is_false(x) for x in xs):
        return z3.BoolVal(False)
    return xs[0] if len(xs) == 1 else z3.And(xs)


def zor(xs):
    xs = [zb(x) for x in xs]
    xs = [x for x in xs if not z3.is_false(x)]
    if not xs:
        return z3.BoolVal(False)
    if any(z3.is_true(x) for x in xs):
        return z3.BoolVal(True)
    return xs[0] if len(xs) == 1 else z3.Or(xs)


def znot(x):
    x = zb(x)
    if z3.is_true(x):
        return z3.BoolVal(False)
    if z3.is_false(x):
        return z3.BoolVal(True)
    return z3.Not(x)


class Sym:
    """base of all symbolic values"""
    frozen = False      # True for objects reachable from a harness argument (write barrier, C12)


class SBool(Sym):
    pytype = bool

    def __init__(s, e):
        s.e = e


class SInt(Sym):
    pytype = int

    def __init__(s, e, from_float=None):
        s.e = e
        s.from_float = from_float     # fp term this int was truncated from (keeps int(f)==f in the FP theory)


class SFloat(Sym):
    pytype = float

    def __init__(s, e):
        s.e = e


class SStr(Sym):
    """unrolled string: length n <= L and L code points"""
    pytype = str

    def __init__(s, n, chars, name=''):
        s.n = n
        s.chars = chars
        s.L = len(chars)
        s.name = name

    def eq_conc(s, t):
        if len(t) > s.L:
            return z3.BoolVal(False)
        from .chartab import char_is
        return memo(('eqc', s.name, s.L, t) if s.name else object(),
                    lambda: z3.And(s.n == len(t), *[char_is(s.chars[i], ord(ch)) for i, ch in enumerate(t)]))

    def eq_sym(s, o):
        if s is o or (s.name and s.name == o.name and s.L == o.L):
            return z3.BoolVal(True)

        def build():
            from .chartab import char_eq
            m = min(s.L, o.L)
            return z3.And(s.n == o.n, s.n <= m, *[z3.Implies(i < s.n, char_eq(s.chars[i], o.chars[i])) for i in range(m)])
        if s.name and o.name:
            return memo(('eqs',) + tuple(sorted([(s.name, s.L), (o.name, o.L)])), build)
        return build()


class SLowered(SStr):
    """s.lower() / s.upper() of an SStr.  Compared with its source it is the cheap per-character fix-point
    predicate; used as a value it is materialised: exact on ASCII and on non-ASCII characters the mapping
    leaves unchanged, inconclusive for other non-ASCII characters (their case mapping is not tabulated)."""
    pytype = str

    def __init__(s, src, it, tab='lowfix'):
        s.src = src
        s.it = it
        s.tab = tab
        s.L = src.L
        s._name = (('lower(' if tab == 'lowfix' else 'upper(') + src.name + ')') if src.name else ''
        s._chars = None

    @property
    def name(s):
        # formulas over this string are memoised by name; whoever asks for the name is about to use such a formula,
        # so the defining constraints of the characters must be on the current path
        s.chars
        return s._name

    @property
    def n(s):
        return s.src.n

    @property
    def chars(s):
        if s._chars is None:
            from .models import materialise_case
            s._chars = materialise_case(s.it, s)
        return s._chars


class SText(Sym):
    """text nobody inspects (messages built by + / str() / f-strings); parts kept for the print model"""
    pytype = str

    def __init__(s, parts):
        s.parts = tuple(parts)


class SBytes(Sym):
    """structural byte strings.
    kind 'hex'    : bytes.fromhex(src) for an SStr src (bytes = nibble pairs of src, src without whitespace)
    kind 'raw'    : unrolled bytes, length n <= len(bs), bs z3 Ints in 0..255, name
    kind 'canon'  : canonserialize(value) -- `tok` z3 Int identifying the JSON value (A3: injective), snapshot kept
    kind 'digest' : SHA256 over parts (list of bytes values)
    kind 'packed' : struct.pack(fmt, e)
    kind 'sign'   : Sign(sk, msg)
    kind 'keyraw' : Raw(key)  (32 bytes)
    kind 'enc'    : text.encode(...) of an opaque text
    kind 'cat'    : concatenation of parts
    """
    pytype = bytes

    def __init__(s, kind, **kw):
        s.kind = kind
        s.__dict__.update(kw)


class Opaque(Sym):
    """opaque token of a given python type (payload, datetime, hasher, ...)"""

    def __init__(s, pytype, what, ident=None, **kw):
        s.pytype = pytype
        s.what = what
        s.ident = ident
        s.__dict__.update(kw)


class SAny(Sym):
    """tagged union: tag z3 Int selects one of alts [(label, value)]"""

    def __init__(s, tag, alts, name=''):
        s.tag = tag
        s.alts = alts
        s.name = name


class SDict(Sym):
    """ordered slots [present, key, value]; keys of present slots pairwise distinct (asserted by the template).
    Insertion by interpreted code appends slots with present=True."""
    pytype = dict

    def __init__(s, slots, name=''):
        s.slots = [list(x) for x in slots]
        s.name = name


class SList(Sym):
    """list with concrete capacity and symbolic length n (items[:n])"""
    pytype = list

    def __init__(s, items, n, name=''):
        s.items = list(items)
        s.n = n
        s.name = name


class SSet(Sym):
    pytype = set

    def __init__(s, items, guards=None):
        s.items = list(items)      # possibly equal elements; len() counts distinct ones
        s.guards = list(guards) if guards is not None else [True] * len(s.items)   # element i is in the set iff guards[i]


class KeysList(list):
    """dict.keys() of a concrete dict with symbolic contents: a list for iteration, set-like for comparisons"""


class SView(Sym):
    """dict view (items/keys/values)"""
    pytype = list

    def __init__(s, d, kind):
        s.d = d
        s.kind = kind


class KeyObj(Sym):
    """ed25519 key object at the crypto boundary.  raw: bytes value of the key material"""

    def __init__(s, raw, private=False, pub=None):
        s.raw = raw
        s.private = private
        s.pub = pub

    @property
    def pytype(s):
        from cryptography.hazmat.primitives.asymmetric import ed25519
        return ed25519.Ed25519PrivateKey if s.private else ed25519.Ed25519PublicKey


def pytype_of(v):
    if isinstance(v, SAny):
        raise TypeError('pytype_of unsplit SAny')
    if isinstance(v, Sym):
        return v.pytype
    return type(v)


def has_sym(v, d=0):
    if isinstance(v, Sym):
        return True
    if d > 8:
        return False
    if isinstance(v, (list, tuple, set, frozenset)):
        return any(has_sym(x, d + 1) for x in v)
    if isinstance(v, dict):
        return any(has_sym(x, d + 1) for x in v.values()) or any(isinstance(k, Sym) for k in v)
    return False
