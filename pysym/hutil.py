"""helpers shared by the harness modules"""
import z3
from .values import *
from .engine import Unsupported
from .interp import Interp, PyExc, FUNCS_SEEN, InjectedFault
from .stubs import STUBS_USED
from .tmpl import conc
from .wire import to_wire

DOCUMENTED = ('CCT_Error', 'TypeError', 'ValueError')


def run_call(it, fn, args, kw=None):
    """-> ('ret', value) | ('exc', class name, function, line, exception object)"""
    from .interp import Frame
    root = Frame(it, run_call, {}, None)
    try:
        return ('ret', it.call(root, fn, list(args), dict(kw or {})))
    except PyExc as pe:
        return ('exc', type(pe.exc).__name__, pe.func, pe.line, pe.exc)


def is_ret(out):
    return out[0] == 'ret'


def exc_in(out, names):
    """exception (by class name through the MRO) is one of `names`"""
    return out[0] == 'exc' and any(c.__name__ in names for c in type(out[4]).__mro__)


def documented(out, extra=()):
    return exc_in(out, DOCUMENTED + tuple(extra))


def okey(out):
    if out[0] == 'ret':
        return 'ret'
    return f'{out[1]}@{out[2]}'


def predicted(out):
    if out[0] == 'ret':
        return {'kind': 'ret'}
    ab = getattr(out[4], 'abstract_class', None)
    if ab:
        return {'kind': 'exc', 'cls_in': list(ab)}
    return {'kind': 'exc', 'cls': out[1], 'msg': f'{out[4]} @ {out[2]}:{out[3]}'[:200]}


def oblige(eng, name, bad, mk_case):
    """property query on the current path: PC & bad must be unsat"""
    st, m = eng.violated(bad)
    ob = dict(name=name, status=st)
    if st == 'sat':
        try:
            ob['cex'] = mk_case(m)
        except Exception as e:          # concretisation failure = harness problem, surfaces as mismatch
            ob['cex'] = dict(scenario='unconcretisable', error=repr(e))
    return ob


def path_model(eng):
    """a model of the path condition (None if infeasible); raises Unsupported on unknown"""
    if eng.enum_only:
        from .engine import EnumDone
        raise EnumDone()
    if eng.last_model is not None:
        return eng.last_model
    r = eng.check()
    if r == z3.sat:
        return eng.solver.model()
    if r == z3.unknown:
        raise Unsupported('solver unknown on the path condition: ' + eng.solver.reason_unknown())
    return None


def record(eng, out=None, obligations=(), witness=None, reach=(), okey_=None):
    return dict(outcome=True, outcome_key=okey_ if okey_ is not None else (okey(out) if out is not None else None),
                obligations=list(obligations), witness=witness, reach=list(reach),
                funcs=dict(FUNCS_SEEN), stubs=sorted(STUBS_USED))


def uf_table(eng, m, name_prefix, conv):
    """model values of an Ackermannised UF: list of (converted args, value)"""
    out = []
    for nm, calls in eng.uf_calls.items():
        if nm.startswith(name_prefix):
            for args, var in calls:
                out.append((nm, [conv(a) for a in args], m.eval(var, model_completion=True)))
    return out


def iso_table(eng, m):
    """IsoOK/ParseIso tables of the model as {text: False | seconds}"""
    tab = {}
    for nm, args, val in uf_table(eng, m, 'IsoOK:', lambda a: conc(m, a)):
        tab[args[0]] = bool(z3.is_true(val))
    for nm, args, val in uf_table(eng, m, 'ParseIso:', lambda a: conc(m, a)):
        if tab.get(args[0]):
            tab[args[0]] = val.as_long() if z3.is_int_value(val) else True
    return tab
