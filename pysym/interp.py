"""pysym: AST interpreter over mixed concrete / symbolic values.

Functions whose module starts with one of `prefixes` are interpreted from their
current source; everything else is either executed natively (all operands
concrete) or dispatched to a model (pysym.models / pysym.stubs)."""
import ast
import os
import builtins
import hashlib
import inspect
import operator
import sys
import textwrap
import types
import z3
from .values import *
from .engine import Infeasible, Unsupported


class PyExc(Exception):
    """a Python exception raised inside interpreted code"""

    def __init__(s, exc, line=None, func=None):
        s.exc = exc
        s.line = line
        s.func = func


class _Return(Exception):
    def __init__(s, v):
        s.v = v


class _Continue(Exception):
    pass


class _Break(Exception):
    pass


class InjectedFault(Exception):
    """fault injected by a harness at a symbolic point (C18)"""


class BoundSym:
    """attribute of a symbolic receiver (method to be modelled)"""

    def __init__(s, o, a):
        s.obj = o
        s.attr = a


class Closure:
    def __init__(s, node, frame):
        s.node = node
        s.frame = frame

    def __call__(s, *args, **kw):
        # called back from native code (map, filter, sorted(key=...), functools.reduce, ...)
        try:
            return s.frame.it.call(s.frame, s, list(args), dict(kw))
        except PyExc as pe:
            raise pe.exc

    @property
    def __name__(s):
        return getattr(s.node, 'name', '<lambda>')


_YIELD_CACHE = {}


def _has_yield(node):
    k = id(node)
    if k not in _YIELD_CACHE:
        found = False
        todo = list(getattr(node, 'body', [])) if not isinstance(node, ast.Lambda) else []
        while todo and not found:
            n = todo.pop()
            if isinstance(n, (ast.Yield, ast.YieldFrom)):
                found = True
            elif not isinstance(n, (ast.FunctionDef, ast.AsyncFunctionDef, ast.Lambda, ast.ClassDef)):
                todo.extend(ast.iter_child_nodes(n))
        _YIELD_CACHE[k] = (found, node)
    return _YIELD_CACHE[k][0]


class SuperProxy:
    def __init__(s, cls, obj):
        s.cls = cls
        s.obj = obj


RM = z3.RNE()


def fpv(x):
    return z3.FPVal(x, F64)


def is_numkind(v):
    return isinstance(v, (SInt, SBool, SFloat)) or (isinstance(v, (int, float)) and not isinstance(v, Sym))


def as_num(v):
    """-> ('int', z3Int, from_float fp|None) | ('float', z3FP)"""
    if isinstance(v, SInt):
        return ('int', v.e, v.from_float)
    if isinstance(v, SBool):
        return ('int', z3.If(v.e, z3.IntVal(1), z3.IntVal(0)), None)
    if isinstance(v, SFloat):
        return ('float', v.e)
    if isinstance(v, bool):
        return ('int', z3.IntVal(int(v)), None)
    if isinstance(v, int):
        return ('int', z3.IntVal(v), None)
    if isinstance(v, float):
        return ('float', fpv(v))
    return None


def fp_is_integral(f):
    return z3.And(z3.Not(z3.fpIsNaN(f)), z3.Not(z3.fpIsInf(f)), z3.fpEQ(z3.fpRoundToIntegral(z3.RTZ(), f), f))


def to_fp(n):
    k, e = n[:2]
    if k == 'float':
        return e
    if z3.is_int_value(e) and abs(e.as_long()) < 2 ** 53:
        return fpv(float(e.as_long()))
    return z3.fpToFP(RM, z3.ToReal(e), F64)


def num_cmp(op, a, b):
    pa = a[2] if len(a) > 2 else None
    pb = b[2] if len(b) > 2 else None
    (ka, ea), (kb, eb) = a[:2], b[:2]
    # int(f) compared with the same float f: stay in the FP theory
    if op == '==' and ka == 'int' and kb == 'float' and pa is not None and pa.eq(eb):
        return fp_is_integral(eb)
    if op == '==' and kb == 'int' and ka == 'float' and pb is not None and pb.eq(ea):
        return fp_is_integral(ea)

    def small_const(e):
        return z3.is_int_value(e) and abs(e.as_long()) < 2 ** 53
    # float vs exactly representable integer constant: FP comparison is exact
    if ka == 'float' and kb == 'int' and small_const(eb):
        kb, eb = 'float', fpv(float(eb.as_long()))
    if kb == 'float' and ka == 'int' and small_const(ea):
        ka, ea = 'float', fpv(float(ea.as_long()))
    if ka == 'int' and kb == 'int':
        return {'==': ea == eb, '<': ea < eb, '<=': ea <= eb, '>': ea > eb, '>=': ea >= eb}[op]
    if ka == 'float' and kb == 'float':
        return {'==': z3.fpEQ(ea, eb), '<': z3.fpLT(ea, eb), '<=': z3.fpLEQ(ea, eb),
                '>': z3.fpGT(ea, eb), '>=': z3.fpGEQ(ea, eb)}[op]
    # mixed with a symbolic integer: exact comparison (Python compares int and float exactly)
    if ka == 'float':
        f, i, flip = ea, eb, False
    else:
        f, i, flip = eb, ea, True
    fin = z3.And(z3.Not(z3.fpIsNaN(f)), z3.Not(z3.fpIsInf(f)))
    r = z3.fpToReal(f)
    ir = z3.ToReal(i)
    pinf = z3.And(z3.fpIsInf(f), z3.fpIsPositive(f))
    ninf = z3.And(z3.fpIsInf(f), z3.fpIsNegative(f))
    if flip:
        op = {'==': '==', '<': '>', '<=': '>=', '>': '<', '>=': '<='}[op]
    if op == '==':
        return z3.And(fin, r == ir)
    if op == '<':
        return z3.Or(z3.And(fin, r < ir), ninf)
    if op == '<=':
        return z3.Or(z3.And(fin, r <= ir), ninf)
    if op == '>':
        return z3.Or(z3.And(fin, r > ir), pinf)
    if op == '>=':
        return z3.Or(z3.And(fin, r >= ir), pinf)


class Interp:
    def __init__(self, eng, overrides=None, ast_transform=None, prefixes=('conda_content_trust',)):
        self.eng = eng
        self.astcache = {}
        self.overrides = overrides or {}
        self.ast_transform = ast_transform
        self.prefixes = prefixes
        self.funcs_seen = {}
        self.shadow_globals = {}      # (module name, var) -> path-local value (global stores / copies of module containers)
        self.fault_at = None          # SInt: index of the statement/stub call at which a fault is injected
        self.steps = 0
        self.depth = 0

    # ---- source access
    def get_ast(self, fn):
        node = self.astcache.get(fn)
        if node is None:
            node, src, file, line = function_ast(fn)
            if self.ast_transform:
                node = self.ast_transform(fn, node) or node
            self.astcache[fn] = node
            FUNCS_SEEN[fn.__module__ + '.' + fn.__qualname__] = dict(
                qualname=fn.__module__ + '.' + fn.__qualname__, file=file, line=line,
                lines=src.count('\n') + 1, sha256=hashlib.sha256(src.encode()).hexdigest())
        return node

    def is_interp(self, fn):
        return isinstance(fn, types.FunctionType) and any((fn.__module__ or '').startswith(p) for p in self.prefixes)

    # ---- fault injection (C18): called for every executed statement and every stub call
    def step(self, what):
        self.steps += 1
        if self.fault_at is not None:
            kinds = getattr(self, 'fault_kinds', None)
            if kinds is not None and ':' not in what and what not in kinds:
                return
            occ = self.step_occ = getattr(self, 'step_occ', {})
            occ[what] = occ.get(what, 0) + 1
            if self.steps <= getattr(self, 'fault_max', 10 ** 9) and self.eng.fork_free(self.fault_at.e == self.steps):
                self.eng.event('fault', at=self.steps, what=what, occurrence=occ[what])
                raise PyExc(InjectedFault(f'injected fault at step {self.steps} ({what})'))

    # ---- calls
    def call(self, fr, fn, args, kw):
        from . import models
        key = getattr(fn, '__func__', fn)
        try:
            hash(key)
            hashable = True
        except TypeError:
            hashable = False
        if hashable and key in self.overrides:
            return self.overrides[key](self, fr, *args, **kw)
        if isinstance(fn, BoundSym):
            return models.sym_method(self, fr, fn.obj, fn.attr, args, kw)
        if isinstance(fn, Closure):
            return self.call_node(fn.node, fn.frame.fn, args, kw, parent=fn.frame)
        if hashable and fn in models.SPECIAL:
            return models.SPECIAL[fn](self, fr, *args, **kw)
        if isinstance(fn, types.MethodType):
            f0 = fn.__func__
            if hashable and f0 in models.SPECIAL_METHODS:
                return models.SPECIAL_METHODS[f0](self, fr, fn.__self__, *args, **kw)
            if self.is_interp(f0):
                return self.call_interp(f0, [fn.__self__] + list(args), kw)
        if isinstance(fn, (types.BuiltinMethodType, types.MethodWrapperType)) or type(fn).__name__ in ('builtin_function_or_method', 'method_descriptor'):
            r = models.builtin_method(self, fr, fn, args, kw)
            if r is not models.NOMODEL:
                return r
        if self.is_interp(fn):
            return self.call_interp(fn, args, kw)
        if isinstance(fn, type) and issubclass(fn, BaseException):
            e = fn(*[a if not isinstance(a, Sym) else '<symbolic>' for a in args])
            e.sym_args = tuple(args)
            return e
        if not has_sym(list(args)) and not has_sym(list(kw.values())):
            mod = getattr(fn, '__module__', None) or getattr(getattr(fn, '__self__', None), '__module__', None) or ''
            pure_path = mod.split('.')[0] == 'pathlib' and (isinstance(fn, type) or getattr(fn, '__name__', '') in PURE_PATH_METHODS)
            if not pure_path and (mod.split('.')[0] in REAL_IO_MODULES or (isinstance(fn, type) and fn.__module__.split('.')[0] in REAL_IO_MODULES)):
                raise Unsupported(f'call into {mod}.{getattr(fn, "__name__", fn)}: real I/O is not performed by the interpreter (no stub)')
            try:
                return fn(*args, **kw)
            except (Exception, SystemExit) as e:       # SystemExit: e.g. argparse's parser.exit() called by the code under test
                raise PyExc(e)
        raise Unsupported(f'no model for {getattr(fn, "__qualname__", fn)!r} on symbolic arguments')

    def shadow_default(self, fn, i, d):
        """mutable default values are evaluated once per function in Python; here: once per path (a private copy, so
        that interpreted code cannot modify the real function object), shared by all calls on the path"""
        if type(d) in (dict, list, set):
            sh = self.__dict__.setdefault('default_shadow', {})
            if (fn, i) not in sh:
                import copy
                sh[(fn, i)] = SDict([]) if type(d) is dict and not d else copy.deepcopy(d)
            return sh[(fn, i)]
        return d

    def call_interp(self, fn, args, kw):
        return self.call_node(self.get_ast(fn), fn, args, kw)

    def call_node(self, node, fn, args, kw, parent=None):
        a = node.args
        names = [x.arg for x in a.posonlyargs + a.args]
        env = {}
        if parent is not None:
            defaults = [parent.ev(d) for d in a.defaults]
            kwdefaults = {k.arg: parent.ev(d) for k, d in zip(a.kwonlyargs, a.kw_defaults) if d is not None}
        else:
            defaults = [self.shadow_default(fn, i, d) for i, d in enumerate(fn.__defaults__ or ())]
            kwdefaults = dict(fn.__kwdefaults__ or {})
        args = list(args)
        kw = dict(kw)
        for i, n in enumerate(names):
            if i < len(args):
                if n in kw:
                    raise PyExc(TypeError(f"got multiple values for argument '{n}'"))
                env[n] = args[i]
            elif n in kw:
                env[n] = kw.pop(n)
            else:
                j = i - (len(names) - len(defaults))
                if j < 0:
                    raise PyExc(TypeError(f"missing required positional argument: '{n}'"))
                env[n] = defaults[j]
        if a.vararg:
            env[a.vararg.arg] = tuple(args[len(names):])
        elif len(args) > len(names):
            raise PyExc(TypeError('too many positional arguments'))
        for k in a.kwonlyargs:
            if k.arg in kw:
                env[k.arg] = kw.pop(k.arg)
            elif k.arg in kwdefaults:
                env[k.arg] = kwdefaults[k.arg]
            else:
                raise PyExc(TypeError(f"missing keyword-only argument '{k.arg}'"))
        if a.kwarg:
            env[a.kwarg.arg] = kw
        elif kw:
            raise PyExc(TypeError(f"got an unexpected keyword argument '{next(iter(kw))}'"))
        fr = Frame(self, fn, env, parent)
        if _has_yield(node):
            # generator function: the body runs to completion at the call and the values are handed out afterwards
            # (exact for finite generators whose consumers do not interleave side effects with the producer)
            fr.yielded = []
        self.depth += 1
        if self.depth > 60:
            self.depth -= 1
            raise Unsupported('interpreted call depth > 60')
        try:
            if isinstance(node, ast.Lambda):
                return fr.ev(node.body)
            fr.block(node.body)
        except _Return as r:
            if getattr(fr, 'yielded', None) is not None:
                return iter(fr.yielded)
            return r.v
        finally:
            self.depth -= 1
        if getattr(fr, 'yielded', None) is not None:
            return iter(fr.yielded)
        return None

    def run_module_body(self, module_name, source, filename, extra_globals=None):
        """interpret the top-level statements of a module (entry points, C17)"""
        tree = ast.parse(source, filename)
        g = {'__name__': module_name, '__builtins__': builtins}
        g.update(extra_globals or {})
        fn = types.FunctionType(compile('pass', filename, 'exec'), g, module_name)
        fr = Frame(self, fn, g, None)
        fr.module_level = True
        fr.block(tree.body)
        return g


FUNCS_SEEN = {}
PURE_PATH_METHODS = {'with_suffix', 'with_name', 'with_stem', 'joinpath', '__truediv__', '__rtruediv__', '__str__', '__fspath__', '__eq__', '__hash__', 'as_posix', 'is_absolute', 'relative_to', 'match'}
REAL_IO_MODULES = {'os', 'posix', 'nt', 'shutil', 'subprocess', 'pathlib', 'tempfile', 'socket', 'glob', 'fcntl', 'mmap', 'signal', 'ctypes', 'urllib', 'http', 'requests'}


def function_ast(fn):
    src = textwrap.dedent(inspect.getsource(fn))
    node = ast.parse(src).body[0]
    ast.increment_lineno(node, fn.__code__.co_firstlineno - 1)
    file = inspect.getsourcefile(fn)
    return node, src, file, fn.__code__.co_firstlineno


class Frame:
    module_level = False

    def __init__(s, it, fn, env, parent=None):
        s.it = it
        s.fn = fn
        s.env = env
        s.eng = it.eng
        s.cur = None
        s.parent = parent
        s.globals_declared = set()
        s.nonlocals_declared = set()

    # ---- names
    def lookup(s, name):
        if name in s.globals_declared:
            return s.global_lookup(name)
        f = s
        while f is not None:
            if name in f.env:
                return f.env[name]
            f = f.parent
        return s.global_lookup(name)

    def global_lookup(s, name):
        g = s.fn.__globals__
        key = (g.get('__name__'), name)
        if key in s.it.shadow_globals:
            return s.it.shadow_globals[key]
        if name in g:
            v = g[name]
            # module-level mutable containers are copied per path so that mutation can be observed, not leaked
            if type(v) in (dict, list, set) and any((g.get('__name__') or '').startswith(p) for p in s.it.prefixes):
                import copy
                v = copy.copy(v)
                s.it.shadow_globals[key] = v
                s.it.global_containers = getattr(s.it, 'global_containers', {})
                s.it.global_containers[id(v)] = key
            return v
        if hasattr(builtins, name):
            return getattr(builtins, name)
        raise PyExc(NameError(f"name '{name}' is not defined"))

    def store_name(s, name, v):
        if name in s.globals_declared or (s.module_level and False):
            g = s.fn.__globals__
            s.it.shadow_globals[(g.get('__name__'), name)] = v
            s.eng.event('global_store', module=g.get('__name__'), name=name)
            return
        if name in s.nonlocals_declared:
            f = s.parent
            while f is not None:
                if name in f.env:
                    f.env[name] = v
                    return
                f = f.parent
        s.env[name] = v

    def block(s, stmts):
        for st in stmts:
            s.exec(st)

    # ---- SAny case split (cached per path)
    def split(s, v):
        while isinstance(v, SAny):
            n = len(v.alts)
            k = str(v.tag)
            idx = s.eng.any_choice.get(k)
            if idx is None:
                for i in range(n - 1):
                    if s.eng.fork(v.tag == i):
                        idx = i
                        break
                if idx is None:
                    if not s.eng.fork(v.tag == n - 1):
                        raise Infeasible()
                    idx = n - 1
                s.eng.any_choice[k] = idx
            v = v.alts[idx][1]
        return v

    def truth(s, v):
        v = s.split(v)
        if isinstance(v, SBool):
            return s.eng.fork(v.e)
        if isinstance(v, SInt):
            return s.eng.fork(v.e != 0)
        if isinstance(v, SFloat):
            return s.eng.fork(z3.Not(z3.fpIsZero(v.e)))
        if isinstance(v, SStr):
            return s.eng.fork(v.n > 0)
        if isinstance(v, SDict):
            return s.eng.fork(zor([p for p, k, x in v.slots]))
        if isinstance(v, SList):
            return s.eng.fork(v.n > 0)
        if isinstance(v, SSet):
            return len(v.items) > 0
        if isinstance(v, SView):
            return s.eng.fork(zor([p for p, k, x in v.d.slots]))
        if isinstance(v, SBytes):
            from .models import bytes_len
            return s.eng.fork(bytes_len(s.it, v) > 0)
        if isinstance(v, SText):
            return True if any(isinstance(p, str) and p for p in v.parts) else s._unsup('truth of opaque text')
        if isinstance(v, (Opaque, KeyObj)):
            return True
        if isinstance(v, Sym):
            raise Unsupported('truth of ' + type(v).__name__)
        try:
            return bool(v)
        except Exception as ex:
            raise PyExc(ex)

    def _unsup(s, msg):
        raise Unsupported(msg)

    # ---- statements
    def exec(s, st):
        T = type(st)
        try:
            if not (T is ast.Expr and isinstance(st.value, ast.Constant)) and T not in (ast.Pass, ast.Global, ast.Nonlocal):
                s.it.step(f'{s.fn.__qualname__}:{getattr(st, "lineno", 0)}')
            if T is ast.Expr:
                s.ev(st.value)
            elif T is ast.Assign:
                v = s.ev(st.value)
                for t in st.targets:
                    s.assign(t, v)
            elif T is ast.AnnAssign:
                if st.value is not None:
                    s.assign(st.target, s.ev(st.value))
            elif T is ast.AugAssign:
                cur = s.ev(st.target)
                v = s.binop(st.op, cur, s.ev(st.value), inplace=True)
                s.assign(st.target, v)
            elif T is ast.Return:
                raise _Return(s.ev(st.value) if st.value else None)
            elif T is ast.If:
                if s.truth(s.ev(st.test)):
                    s.block(st.body)
                else:
                    s.block(st.orelse)
            elif T is ast.For:
                broke = False
                for x in s.iterate(s.ev(st.iter)):
                    s.assign(st.target, x)
                    try:
                        s.block(st.body)
                    except _Continue:
                        continue
                    except _Break:
                        broke = True
                        break
                if not broke:
                    s.block(st.orelse)
            elif T is ast.While:
                n = 0
                broke = False
                while s.truth(s.ev(st.test)):
                    n += 1
                    if n > 64:
                        raise Unsupported('while-loop bound 64 exceeded')
                    try:
                        s.block(st.body)
                    except _Continue:
                        continue
                    except _Break:
                        broke = True
                        break
                if not broke:
                    s.block(st.orelse)
            elif T is ast.Continue:
                raise _Continue()
            elif T is ast.Break:
                raise _Break()
            elif T is ast.Raise:
                if st.exc is None:
                    if s.cur is None:
                        raise PyExc(RuntimeError('No active exception to reraise'))
                    raise s.cur
                e = s.ev(st.exc)
                if isinstance(e, type):
                    e = s.it.call(s, e, [], {})
                if not isinstance(e, BaseException):
                    raise PyExc(TypeError('exceptions must derive from BaseException'))
                if st.cause is not None:
                    c = s.ev(st.cause)
                    if isinstance(c, type):
                        c = s.it.call(s, c, [], {})
                    if c is not None and not isinstance(c, BaseException):
                        raise PyExc(TypeError('exception causes must derive from BaseException'))
                    try:
                        e.__cause__ = c
                    except Exception:
                        pass
                elif s.cur is not None and e is not s.cur.exc:
                    try:
                        e.__context__ = s.cur.exc
                    except Exception:
                        pass
                raise PyExc(e, st.lineno, s.fn.__qualname__)
            elif T is ast.Try:
                s.exec_try(st)
            elif T is ast.Assert:
                if not s.truth(s.ev(st.test)):
                    raise PyExc(AssertionError(), st.lineno, s.fn.__qualname__)
            elif T is ast.Pass:
                pass
            elif T is ast.Global:
                s.globals_declared.update(st.names)
            elif T is ast.Nonlocal:
                s.nonlocals_declared.update(st.names)
            elif T is ast.FunctionDef:
                s.env[st.name] = Closure(st, s)
            elif T is ast.Import:
                for al in st.names:
                    try:
                        m = __import__(al.name)
                    except Exception as ex:
                        raise PyExc(ex)
                    if al.asname:
                        for part in al.name.split('.')[1:]:
                            m = getattr(m, part)
                        s.store_name(al.asname, m)
                    else:
                        s.store_name(al.name.split('.')[0], m)
            elif T is ast.ImportFrom:
                import importlib
                pkg = s.fn.__globals__.get('__package__') or (s.fn.__globals__.get('__name__') or '').rpartition('.')[0]
                try:
                    m = importlib.import_module(('.' * st.level) + (st.module or ''), pkg if st.level else None)
                    for al in st.names:
                        try:
                            v = getattr(m, al.name)
                        except AttributeError:
                            v = importlib.import_module(m.__name__ + '.' + al.name)
                        s.store_name(al.asname or al.name, v)
                except PyExc:
                    raise
                except Exception as ex:
                    raise PyExc(ex)
            elif T is ast.With:
                s.exec_with(st, 0)
            elif T is ast.Delete:
                from .models import delitem
                for t in st.targets:
                    if isinstance(t, ast.Name):
                        if t.id in s.env:
                            del s.env[t.id]
                        else:
                            raise PyExc(NameError(t.id))
                    elif isinstance(t, ast.Subscript):
                        delitem(s.it, s, s.split(s.ev(t.value)), s.split(s.ev(t.slice)))
                    else:
                        raise Unsupported('del target')
            else:
                raise Unsupported('statement ' + T.__name__)
        except PyExc as pe:
            if pe.line is None:
                pe.line = getattr(st, 'lineno', None)
                pe.func = s.fn.__qualname__
            raise

    def exec_try(s, st):
        try:
            try:
                s.block(st.body)
            except PyExc as pe:
                for h in st.handlers:
                    cls = s.ev(h.type) if h.type else BaseException
                    if isinstance(cls, tuple):
                        cls = tuple(cls)
                    if isinstance(pe.exc, InjectedFault) and h.type is not None and not _catches_fault(cls):
                        continue
                    if isinstance(pe.exc, cls):
                        old = s.cur
                        s.cur = pe
                        if h.name:
                            s.env[h.name] = pe.exc
                        try:
                            s.block(h.body)
                        finally:
                            s.cur = old
                        break
                else:
                    raise
            else:
                s.block(st.orelse)
        finally:
            if st.finalbody:
                s.block(st.finalbody)

    def exec_with(s, st, i):
        from .models import with_enter, with_exit
        if i == len(st.items):
            s.block(st.body)
            return
        item = st.items[i]
        cm = s.ev(item.context_expr)
        v = with_enter(s.it, s, cm)
        if item.optional_vars is not None:
            s.assign(item.optional_vars, v)
        try:
            s.exec_with(st, i + 1)
        except PyExc as pe:
            if with_exit(s.it, s, cm, pe):
                return
            raise
        except (_Return, _Break, _Continue):
            with_exit(s.it, s, cm, None)
            raise
        else:
            with_exit(s.it, s, cm, None)

    def assign(s, t, v):
        if isinstance(t, ast.Name):
            s.store_name(t.id, v)
        elif isinstance(t, (ast.Tuple, ast.List)):
            vs = list(s.iterate(v))
            stars = [i for i, x in enumerate(t.elts) if isinstance(x, ast.Starred)]
            if stars:
                i, after = stars[0], len(t.elts) - stars[0] - 1
                if len(stars) > 1:
                    raise PyExc(SyntaxError('multiple starred expressions in assignment'))
                if len(vs) < len(t.elts) - 1:
                    raise PyExc(ValueError(f'not enough values to unpack (expected at least {len(t.elts) - 1}, got {len(vs)})'))
                for tt, vv in zip(t.elts[:i], vs[:i]):
                    s.assign(tt, vv)
                s.assign(t.elts[i].value, vs[i:len(vs) - after])
                for tt, vv in zip(t.elts[i + 1:], vs[len(vs) - after:] if after else []):
                    s.assign(tt, vv)
                return
            if len(vs) != len(t.elts):
                raise PyExc(ValueError('not enough / too many values to unpack'))
            for tt, vv in zip(t.elts, vs):
                s.assign(tt, vv)
        elif isinstance(t, ast.Subscript):
            o = s.split(s.ev(t.value))
            k = s.split(s.ev(t.slice))
            from .models import setitem
            newo = setitem(s.it, s, o, k, v)
            if newo is not None and newo is not o:
                # a concrete dict became symbolic: rebind it where it is reachable from
                for f in _frames(s):
                    for n, x in list(f.env.items()):
                        if x is o:
                            f.env[n] = newo
                for kk, x in list(getattr(s.it, 'shadow_attrs', {}).items()):
                    if x is o:
                        s.it.shadow_attrs[kk] = newo
                s.assign(t.value, newo) if isinstance(t.value, (ast.Name, ast.Subscript)) else None
        elif isinstance(t, ast.Attribute):
            o = s.ev(t.value)
            if isinstance(o, Sym):
                raise Unsupported('attribute store on symbolic object')
            if isinstance(o, types.ModuleType):
                s.it.shadow_globals[(o.__name__, t.attr)] = v
                s.eng.event('global_store', module=o.__name__, name=t.attr)
                return
            if isinstance(o, type) or not hasattr(o, '__dict__'):
                raise Unsupported('attribute store on ' + type(o).__name__)
            setattr(o, t.attr, v)
        elif isinstance(t, ast.Starred):
            raise Unsupported('starred assignment')
        else:
            raise Unsupported('assign target ' + type(t).__name__)

    def iterate(s, it):
        it = s.split(it)
        from .models import iterate
        return iterate(s.it, s, it)

    # ---- expressions
    def ev(s, e):
        T = type(e)
        if T is ast.Constant:
            return e.value
        if T is ast.Name:
            return s.lookup(e.id)
        if T is ast.Attribute:
            o = s.split(s.ev(e.value))
            if isinstance(o, Sym):
                return BoundSym(o, e.attr)
            if isinstance(o, SuperProxy):
                return _super_getattr(o, e.attr)
            if isinstance(o, types.ModuleType):
                key = (o.__name__, e.attr)
                if key in s.it.shadow_globals:
                    return s.it.shadow_globals[key]
            if isinstance(o, BaseException) and e.attr == 'args' and hasattr(o, 'sym_args'):
                return o.sym_args
            try:
                v = getattr(o, e.attr)
            except Exception as ex:
                raise PyExc(ex)
            if isinstance(o, type) and type(v) in (dict, list, set) and any((o.__module__ or '').startswith(p) for p in s.it.prefixes):
                # mutable class-level state of the code under test: a private copy per path (shared by all uses on the path,
                # never written through to the real class), symbolic from the start when it is an empty dict
                owner = next((c for c in o.__mro__ if e.attr in c.__dict__), o)
                sh = s.it.__dict__.setdefault('shadow_attrs', {})
                key = (id(owner), e.attr)
                if key not in sh:
                    import copy
                    sh[key] = SDict([]) if type(v) is dict and not v else copy.deepcopy(v)
                return sh[key]
            return v
        if T is ast.Call:
            if isinstance(e.func, ast.Name) and e.func.id == 'super' and not e.args and 'super' not in s.env:
                return s.make_super()
            f = s.ev(e.func)
            args = []
            for a in e.args:
                if isinstance(a, ast.Starred):
                    args.extend(s.iterate(s.ev(a.value)))
                else:
                    args.append(s.ev(a))
            kw = {}
            for k in e.keywords:
                if k.arg is None:
                    d = s.split(s.ev(k.value))
                    if isinstance(d, Sym):
                        raise Unsupported('** of symbolic dict')
                    kw.update(d)
                else:
                    kw[k.arg] = s.ev(k.value)
            return s.it.call(s, f, args, kw)
        if T is ast.BoolOp:
            isand = isinstance(e.op, ast.And)
            v = None
            for i, sub in enumerate(e.values):
                v = s.ev(sub)
                if i == len(e.values) - 1:
                    return v
                t = s.truth(v)
                if isand and not t:
                    return v if not isinstance(s.split(v), Sym) else _falsy(s.split(v))
                if (not isand) and t:
                    return v if not isinstance(s.split(v), Sym) else _truthy(s.split(v))
            return v
        if T is ast.UnaryOp:
            v = s.split(s.ev(e.operand))
            if isinstance(e.op, ast.Not):
                if isinstance(v, SBool):
                    return SBool(z3.Not(v.e))
                return not s.truth(v)
            if isinstance(e.op, (ast.USub, ast.UAdd)):
                neg = isinstance(e.op, ast.USub)
                if isinstance(v, SInt):
                    return SInt(-v.e) if neg else v
                if isinstance(v, SBool):
                    i = z3.If(v.e, z3.IntVal(1), z3.IntVal(0))
                    return SInt(-i if neg else i)
                if isinstance(v, SFloat):
                    return SFloat(z3.fpNeg(v.e)) if neg else v
                if not isinstance(v, Sym):
                    try:
                        return -v if neg else +v
                    except Exception as ex:
                        raise PyExc(ex)
                raise PyExc(TypeError(f"bad operand type for unary -: '{pytype_of(v).__name__}'"))
            if isinstance(e.op, ast.Invert):
                if isinstance(v, SInt):
                    return SInt(-v.e - 1)
                if isinstance(v, SBool):
                    return SInt(z3.If(v.e, z3.IntVal(-2), z3.IntVal(-1)))
                if not isinstance(v, Sym):
                    try:
                        return ~v
                    except Exception as ex:
                        raise PyExc(ex)
                raise PyExc(TypeError(f"bad operand type for unary ~: '{pytype_of(v).__name__}'"))
            raise Unsupported('unary ' + type(e.op).__name__)
        if T is ast.Compare:
            left = s.ev(e.left)
            res = None
            for i, (op, r) in enumerate(zip(e.ops, e.comparators)):
                right = s.ev(r)
                res = s.compare(op, left, right)
                if i < len(e.ops) - 1 and not s.truth(res):
                    return False
                left = right
            return res
        if T is ast.BinOp:
            return s.binop(e.op, s.ev(e.left), s.ev(e.right))
        if T is ast.Subscript:
            o = s.split(s.ev(e.value))
            if isinstance(e.slice, ast.Slice):
                lo = s.split(s.ev(e.slice.lower)) if e.slice.lower else None
                hi = s.split(s.ev(e.slice.upper)) if e.slice.upper else None
                st_ = s.split(s.ev(e.slice.step)) if e.slice.step else None
                from .models import getslice
                return getslice(s.it, s, o, lo, hi, st_)
            k = s.split(s.ev(e.slice))
            from .models import getitem
            return getitem(s.it, s, o, k)
        if T is ast.List:
            out = []
            for x in e.elts:
                if isinstance(x, ast.Starred):
                    out.extend(s.iterate(s.ev(x.value)))
                else:
                    out.append(s.ev(x))
            return out
        if T is ast.Tuple:
            out = []
            for x in e.elts:
                if isinstance(x, ast.Starred):
                    out.extend(s.iterate(s.ev(x.value)))
                else:
                    out.append(s.ev(x))
            return tuple(out)
        if T is ast.Set:
            vals = [s.split(s.ev(x)) for x in e.elts]
            if has_sym(vals):
                return SSet(vals)
            try:
                return set(vals)
            except Exception as ex:
                raise PyExc(ex)
        if T is ast.Dict:
            from .models import setitem
            # an empty display is usually filled later, possibly under symbolic keys and through aliases (arguments,
            # default values, other containers): start symbolic so that the object identity survives
            d = {} if e.keys else SDict([])
            for k, v in zip(e.keys, e.values):
                if k is None:
                    src = s.split(s.ev(v))
                    if isinstance(src, SDict):
                        if isinstance(d, dict):
                            d = SDict([[True, kk, vv] for kk, vv in d.items()])
                        for p, kk, vv in src.slots:
                            if s.eng.fork(zb(p)):
                                setitem(s.it, s, d, kk, vv)
                        continue
                    if isinstance(src, Sym):
                        raise Unsupported('** of ' + type(src).__name__)
                    for kk, vv in src.items():
                        r = setitem(s.it, s, d, kk, vv)
                        d = r if r is not None else d
                    continue
                kk = s.split(s.ev(k))
                vv = s.ev(v)
                r = setitem(s.it, s, d, kk, vv)
                d = r if r is not None else d
            return d
        if T in (ast.ListComp, ast.GeneratorExp, ast.SetComp):
            out = []
            sub = Frame(s.it, s.fn, {}, s)
            sub.comp(e.generators, 0, lambda: out.append(sub.ev(e.elt)))
            if T is ast.SetComp:
                vals = [s.split(x) for x in out]
                if has_sym(vals):
                    return SSet(vals)
                try:
                    return set(vals)
                except Exception as ex:
                    raise PyExc(ex)
            return out
        if T is ast.DictComp:
            from .models import setitem
            box = [{}]
            sub = Frame(s.it, s.fn, {}, s)

            def add():
                k = sub.split(sub.ev(e.key))
                r = setitem(s.it, sub, box[0], k, sub.ev(e.value))
                if r is not None:
                    box[0] = r
            sub.comp(e.generators, 0, add)
            return box[0]
        if T is ast.IfExp:
            return s.ev(e.body) if s.truth(s.ev(e.test)) else s.ev(e.orelse)
        if T is ast.JoinedStr:
            parts = []
            for v in e.values:
                if isinstance(v, ast.FormattedValue):
                    x = s.split(s.ev(v.value))
                    if v.conversion == 114:
                        x = s.it.call(s, repr, [x], {})
                    elif v.conversion == 97:
                        x = s.it.call(s, ascii, [x], {})
                    elif not isinstance(x, (str, SStr)):
                        x = s.it.call(s, str, [x], {}) if v.format_spec is None else x
                    if v.format_spec is not None:
                        if isinstance(x, Sym):
                            raise Unsupported('format spec on symbolic value')
                        x = format(x, s.ev(v.format_spec))
                    parts.append(x)
                else:
                    parts.append(v.value)
            if has_sym(parts):
                return SText(parts)
            return ''.join(parts)
        if T is ast.Lambda:
            return Closure(e, s)
        if T is ast.NamedExpr:
            v = s.ev(e.value)
            s.assign(e.target, v)
            return v
        if T is ast.Yield or T is ast.YieldFrom:
            f = s
            while f is not None and getattr(f, 'yielded', None) is None:
                f = getattr(f, 'parent', None) if getattr(f, 'is_comp', False) else None
            if f is None:
                raise Unsupported('expression ' + T.__name__)
            if T is ast.Yield:
                f.yielded.append(s.ev(e.value) if e.value is not None else None)
            else:
                f.yielded.extend(s.iterate(s.ev(e.value)))
            return None
        if T is ast.Starred:
            raise Unsupported('starred expression')
        raise Unsupported('expression ' + T.__name__)

    def make_super(s):
        fn = s.fn
        qual = fn.__qualname__.split('.')
        if len(qual) < 2:
            raise PyExc(RuntimeError('super(): no arguments'))
        cls = fn.__globals__.get(qual[-2])
        names = [a.arg for a in s.it.get_ast(fn).args.args]
        if cls is None or not names:
            raise Unsupported('super() outside a method')
        return SuperProxy(cls, s.env[names[0]])

    def comp(s, gens, i, emit):
        if i == len(gens):
            emit()
            return
        g = gens[i]
        for x in s.iterate(s.ev(g.iter)):
            s.assign(g.target, x)
            if all(s.truth(s.ev(c)) for c in g.ifs):
                s.comp(gens, i + 1, emit)

    # ---- operators
    def binop(s, op, l, r, inplace=False):
        l = s.split(l)
        r = s.split(r)
        T = type(op)
        if not has_sym(l) and not has_sym(r):
            try:
                if inplace and isinstance(l, list) and T is ast.Add:
                    if getattr(l, 'frozen', False) and len(r):
                        s.eng.event('arg_mutation', what='list +=')
                    l += r
                    return l
                return OPS[T](l, r)
            except KeyError:
                raise Unsupported('binop ' + T.__name__)
            except Exception as ex:
                raise PyExc(ex)
        if T is ast.Add and issubclass(pytype_of(l), list) and issubclass(pytype_of(r), list) and not isinstance(l, SAny) and not isinstance(r, SAny):
            from .models import slist_extend
            if inplace:
                if isinstance(l, SList):
                    slist_extend(s.it, s, l, r)
                else:
                    ext = list(s.iterate(r))
                    if ext and getattr(l, 'frozen', False):
                        s.eng.event('arg_mutation', what='list +=')
                    l.extend(ext)
                return l
            return list(s.iterate(l)) + list(s.iterate(r))
        from .models import sym_binop
        return sym_binop(s.it, s, T, l, r)

    def sym_eq(s, l, r):
        from .models import val_eq
        return val_eq(s.it, s, l, r)

    def compare(s, op, l, r):
        T = type(op)
        if T in (ast.Is, ast.IsNot):
            l = s.split(l)
            r = s.split(r)
            if isinstance(l, Sym) or isinstance(r, Sym):
                res = (l is r)
                if isinstance(l, (SBool,)) or isinstance(r, (SBool,)):
                    # `x is True` on a symbolic bool
                    sb, other = (l, r) if isinstance(l, SBool) else (r, l)
                    if other is True:
                        res = SBool(sb.e)
                    elif other is False:
                        res = SBool(z3.Not(sb.e))
                    if isinstance(res, SBool):
                        return res if T is ast.Is else SBool(z3.Not(res.e))
                return res if T is ast.Is else not res
            return (l is r) if T is ast.Is else (l is not r)
        if T in (ast.In, ast.NotIn):
            l = s.split(l)
            r = s.split(r)
            from .models import contains
            res = contains(s.it, s, r, l)
            if T is ast.In:
                return res
            return SBool(z3.Not(res.e)) if isinstance(res, SBool) else (not res)
        l = s.split(l)
        r = s.split(r)
        if not has_sym(l) and not has_sym(r):
            kv = lambda x: dict.fromkeys(x).keys() if isinstance(x, KeysList) else x       # keys() of a dict: a real (set-like) key view
            try:
                return CMP[T](kv(l), kv(r))
            except Exception as ex:
                raise PyExc(ex)
        if T in (ast.Eq, ast.NotEq):
            e = s.sym_eq(l, r)
            e = z3.simplify(e)
            if z3.is_true(e):
                return T is ast.Eq
            if z3.is_false(e):
                return T is not ast.Eq
            return SBool(e if T is ast.Eq else z3.Not(e))
        o = {ast.Lt: '<', ast.LtE: '<=', ast.Gt: '>', ast.GtE: '>='}[T]
        if is_numkind(l) and is_numkind(r):
            return SBool(num_cmp(o, as_num(l), as_num(r)))
        from .models import sym_order
        return sym_order(s.it, s, o, l, r)


def _frames(f):
    while f is not None:
        yield f
        f = f.parent


def _falsy(v):
    return v


def _truthy(v):
    return v


def _catches_fault(cls):
    """injected faults stand for 'any exception': only bare except / Exception / BaseException handlers catch them"""
    if isinstance(cls, tuple):
        return any(_catches_fault(c) for c in cls)
    return cls in (Exception, BaseException)


def _super_getattr(proxy, attr):
    mro = type(proxy.obj).__mro__ if not isinstance(proxy.obj, type) else proxy.obj.__mro__
    try:
        i = mro.index(proxy.cls)
    except ValueError:
        i = -1
    for c in mro[i + 1:]:
        if attr in c.__dict__:
            v = c.__dict__[attr]
            if isinstance(v, classmethod):
                return types.MethodType(v.__func__, proxy.obj if isinstance(proxy.obj, type) else type(proxy.obj))
            if isinstance(v, staticmethod):
                return v.__func__
            if isinstance(v, types.FunctionType):
                return types.MethodType(v, proxy.obj)
            try:
                return v.__get__(None if isinstance(proxy.obj, type) else proxy.obj, proxy.obj if isinstance(proxy.obj, type) else type(proxy.obj))
            except Exception as ex:
                raise PyExc(ex)
    raise PyExc(AttributeError(f"'super' object has no attribute '{attr}'"))


OPS = {ast.Add: operator.add, ast.Sub: operator.sub, ast.Mult: operator.mul, ast.Mod: operator.mod,
       ast.FloorDiv: operator.floordiv, ast.Div: operator.truediv, ast.BitOr: operator.or_,
       ast.BitAnd: operator.and_, ast.BitXor: operator.xor, ast.Pow: operator.pow,
       ast.LShift: operator.lshift, ast.RShift: operator.rshift}
CMP = {ast.Eq: operator.eq, ast.NotEq: operator.ne, ast.Lt: operator.lt, ast.LtE: operator.le,
       ast.Gt: operator.gt, ast.GtE: operator.ge}
