"""helpers for running scenarios on the REAL, un-interpreted code (witness validation and
counterexample replay).  Only the library boundary is stubbed, and only when the case says so."""
import contextlib
import datetime as _dt
import hashlib
import importlib
import io
import os
import shutil
import struct
import sys
import tempfile
from .wire import to_wire, from_wire

DOCUMENTED = ('CCT_Error', 'TypeError', 'ValueError')


def resolve(path):
    mod, _, qual = path.partition(':')
    o = importlib.import_module(mod)
    for part in qual.split('.'):
        o = getattr(o, part)
    return o


def outcome_of(f, *a, **kw):
    try:
        v = f(*a, **kw)
        try:
            w = to_wire(v)
        except Exception:
            w = {'$': 'repr', 'v': repr(v)}
        return {'kind': 'ret', 'value': w}
    except BaseException as e:          # noqa: the class of *any* escape is the observation
        if isinstance(e, (KeyboardInterrupt, SystemExit)) and not isinstance(e, SystemExit):
            raise
        return {'kind': 'exc', 'cls': type(e).__name__, 'mro': [c.__name__ for c in type(e).__mro__],
                'msg': ascii(str(e))[:300], 'code': getattr(e, 'code', None) if isinstance(e, SystemExit) else None}


def documented(exc_obs, extra=()):
    """is the exception class inside the documented families (library hierarchy, TypeError, ValueError)?"""
    return any(c in exc_obs.get('mro', []) for c in DOCUMENTED + tuple(extra))


# ---------------------------------------------------------------------------
# crypto boundary stub (the real Rust key types cannot be patched; the ABC's constructors can)

class _Crypto:
    def __init__(self):
        self.table = {}         # (key bytes, sig bytes, msg bytes) -> bool
        self.calls = []
        self.installed = False

    def install(self):
        if self.installed:
            return
        from cryptography.hazmat.primitives.asymmetric import ed25519
        import cryptography.exceptions
        crypto = self

        class StubPub:
            def __init__(self, b):
                self.b = bytes(b)

            def verify(self, sig, data):
                k = (self.b, bytes(sig), bytes(data))
                crypto.calls.append(k)
                if len(bytes(sig)) != 64 or not crypto.table.get(k, False):
                    raise cryptography.exceptions.InvalidSignature()

            def public_bytes(self, encoding, format):
                return self.b

            def public_bytes_raw(self):
                return self.b

        class StubPriv:
            def __init__(self, b):
                self.b = bytes(b)

            def sign(self, data):
                sig = hashlib.sha512(b'sig' + self.b + bytes(data)).digest()
                crypto.table[(self.public_key().b, sig, bytes(data))] = True
                return sig

            def public_key(self):
                return StubPub(hashlib.sha256(b'pub' + self.b).digest())

            def private_bytes(self, encoding, format, encryption_algorithm):
                return self.b

            def private_bytes_raw(self):
                return self.b

        ed25519.Ed25519PublicKey.register(StubPub)
        ed25519.Ed25519PrivateKey.register(StubPriv)
        self._orig = (ed25519.Ed25519PublicKey.__dict__['from_public_bytes'], ed25519.Ed25519PrivateKey.__dict__['from_private_bytes'])

        def pub_from(cls, data):
            if len(data) != 32:
                raise ValueError('An Ed25519 public key is 32 bytes long')
            return StubPub(data)

        def priv_from(cls, data):
            if len(data) != 32:
                raise ValueError('An Ed25519 private key is 32 bytes long')
            return StubPriv(data)
        ed25519.Ed25519PublicKey.from_public_bytes = classmethod(pub_from)
        ed25519.Ed25519PrivateKey.from_private_bytes = classmethod(priv_from)
        self.StubPub, self.StubPriv = StubPub, StubPriv
        self.installed = True

    def reset(self):
        self.table = {}
        self.calls = []


CRYPTO = _Crypto()


def msg_bytes(desc):
    """real bytes of a message descriptor from a witness"""
    from conda_content_trust.common import canonserialize
    if 'canon' in desc:
        return canonserialize(from_wire(desc['canon']))
    if 'bytes' in desc:
        return bytes.fromhex(desc['bytes'])
    if 'hexstr' in desc:
        return bytes.fromhex(desc['hexstr'])
    if 'pack' in desc:
        return struct.pack(desc['pack'][0], desc['pack'][1])
    if 'digest' in desc:
        h = hashlib.sha256()
        for p in desc['digest']:
            h.update(msg_bytes(p))
        return h.digest()
    raise ValueError('message descriptor ' + repr(desc))


def gpg_digest(data, header_bytes):
    """the digest RFC 4880 section 5.2.4 prescribes for a v4 signature (written from the RFC / property text)"""
    return hashlib.sha256(data + header_bytes + b'\x04\xff' + struct.pack('>I', len(header_bytes))).digest()


def setup_valid_table(entries):
    CRYPTO.install()
    CRYPTO.reset()
    for e in entries or []:
        try:
            k = (bytes.fromhex(e['key']), bytes.fromhex(e['sig']), msg_bytes(e['msg']))
        except ValueError:
            continue
        CRYPTO.table[k] = bool(e['valid'])


def mk_key(hexstr, private):
    from conda_content_trust.common import PrivateKey, PublicKey
    b = bytes.fromhex(hexstr)
    return (PrivateKey if private else PublicKey).from_bytes(b)


# ---------------------------------------------------------------------------
# strptime / clock stub inside conda_content_trust.common

class _FakeDT:
    table = {}
    clock = []
    real = _dt.datetime

    @classmethod
    def strptime(cls, x, fmt):
        if not isinstance(x, str):
            raise TypeError(f'strptime() argument 1 must be str, not {type(x).__name__}')
        if x in cls.table:
            v = cls.table[x]
            if v is False or v is None:
                raise ValueError('time data does not match format (witness table)')
            if v is True:
                return _dt.datetime(2000, 1, 1)
            return _dt.datetime(1970, 1, 1) + _dt.timedelta(seconds=int(v))
        return _dt.datetime.strptime(x, fmt)

    @classmethod
    def utcnow(cls):
        if cls.clock:
            us = cls.clock.pop(0)
            return _dt.datetime(1970, 1, 1) + _dt.timedelta(microseconds=us)
        return _dt.datetime.utcnow()

    now = utcnow


@contextlib.contextmanager
def time_stub(iso_table=None, clock=None):
    import conda_content_trust.common as C
    _FakeDT.table = dict(iso_table or {})
    _FakeDT.clock = list(clock or [])
    old = C.datetime
    C.datetime = _FakeDT
    try:
        yield
    finally:
        C.datetime = old


@contextlib.contextmanager
def stdout_as(enc):
    """run with a standard output of the given encoding: 'utf-8', 'ascii', 'surrogateescape', or None (unchanged)"""
    if enc is None:
        buf = io.StringIO()
        old = sys.stdout
        sys.stdout = _Tolerant()
        try:
            yield
        finally:
            sys.stdout = old
        return
    raw = io.BytesIO()
    errors = 'surrogateescape' if enc == 'surrogateescape' else 'strict'
    encoding = 'utf-8' if enc == 'surrogateescape' else enc
    w = io.TextIOWrapper(raw, encoding=encoding, errors=errors, write_through=True)
    old = sys.stdout
    sys.stdout = w
    try:
        yield
    finally:
        sys.stdout = old


class _Tolerant(io.TextIOBase):
    def write(self, s):
        return len(s)


@contextlib.contextmanager
def temp_files(files):
    """files: logical name -> bytes | None; yields dict logical name -> real path"""
    d = tempfile.mkdtemp(prefix='cct-verif-fs-', dir='/var/tmp')
    try:
        paths = {}
        for name, content in files.items():
            p = os.path.join(d, name.replace('/', '_').replace('<', '').replace('>', ''))
            paths[name] = p
            if content is not None:
                with open(p, 'wb') as f:
                    f.write(content)
        yield paths
    finally:
        shutil.rmtree(d, ignore_errors=True)


def generic_call(case):
    """scenario 'call': one call of a real function with concretised arguments"""
    env = case.get('env', {})
    if env.get('crypto') == 'stub':
        setup_valid_table(env.get('valid', []))
        mk = mk_key
    else:
        mk = mk_key
    args = [from_wire(a, mk) for a in case.get('args', [])]
    kwargs = {k: from_wire(v, mk) for k, v in case.get('kwargs', {}).items()}
    before = to_wire(args)
    f = resolve(case['func'])
    with time_stub(env.get('iso'), env.get('clock')), stdout_as(env.get('stdout_enc')):
        oc = outcome_of(f, *args, **kwargs)
    try:
        after = to_wire(args)
    except Exception:
        after = None
    return {'outcome': oc, 'args_unchanged': after == before}


def same_outcome(pred, oc):
    if pred is None:
        return True
    if pred['kind'] != oc['kind']:
        return False
    if pred['kind'] == 'exc':
        if 'cls_in' in pred:
            return oc['cls'] in pred['cls_in']
        return pred['cls'] == oc['cls']
    if 'value' in pred:
        return pred['value'] == oc.get('value')
    return True


def ref_canon(obj):
    """the documented canonical form, independent of the code under test: UTF-8 JSON, keys sorted, indent 2, ASCII-escaped
    (what the library's docstring and the specification define; oracles compare against this, never against the
    possibly modified canonserialize)"""
    import json
    return json.dumps(obj, indent=2, sort_keys=True).encode('utf-8')
