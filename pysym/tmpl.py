"""pysym: templates (builders of symbolic inputs), oracle helpers, concretisation of models."""
import datetime
import math
import struct
import z3
from .values import *
from .models import canon, canon_even, alt_cases, spec_over
from .interp import fpv, F64, fp_is_integral
from .wire import KeyRef, Exotic
from . import chartab as CT

EXOTIC = [('bytes', b'ab'), ('tuple', (1,)), ('object', Exotic()), ('complex', 1j), ('set', set()),
          ('timedelta', datetime.timedelta(days=1))]


class T:
    """template factory bound to an engine (domain constraints go to the engine's base level when
    the builder runs inside Engine.declare, else to the current path)"""

    def __init__(s, eng, ns=''):
        s.eng = eng
        s.ns = ns + ':' if ns else ''

    def str(s, name, L):
        name = s.ns + name

        def build():
            n = z3.Int(name + '#n')
            cs = [z3.Int(f'{name}#{i}') for i in range(L)]
            return n, cs, z3.And(n >= 0, n <= L, *[CT.char_domain(c) for c in cs])
        n, cs, dom = memo(('tstr', name, L), build)
        s.eng.domain(('tstr', name, L), dom)
        return SStr(n, cs, name)

    def int(s, name):
        return SInt(z3.Int(s.ns + name))

    def bool(s, name):
        return SBool(z3.Bool(s.ns + name))

    def float(s, name):
        """binary64 hole: NaN, +-inf, or finite with |x| < 2**62 (so that int(x) can be encoded through a 64-bit
        bit-vector conversion; z3 answers `unknown` on fp.to_real for the general case)"""
        f = z3.FP(s.ns + name, F64)
        lim = fpv(2.0 ** 62)
        s.eng.domain(('tfloat', s.ns + name), z3.Or(z3.fpIsNaN(f), z3.fpIsInf(f), z3.And(z3.fpLT(f, lim), z3.fpGT(f, z3.fpNeg(lim)))))
        return SFloat(f)

    def any(s, name, alts):
        name = s.ns + name
        tag = z3.Int(name + '#tag')
        s.eng.domain(('tany', name, len(alts)), z3.And(tag >= 0, tag < len(alts)))
        return SAny(tag, list(alts), name)

    def json_leafs(s, name, strL=3, extra=()):
        return [('none', None), ('bool', s.bool(name + '.b')), ('int', s.int(name + '.i')), ('float', s.float(name + '.f')),
                ('str', s.str(name + '.s', strL)), ('list', []), ('dict', {})] + list(extra)

    def _leafs_after(s, first, name, strL, extra):
        # when a (longer) free string is already the first alternative, the generic short string alternative would only
        # duplicate part of it -- and oracles identify "is a string" with that first alternative
        leafs = s.json_leafs(name, strL, extra)
        if any(isinstance(v, SStr) for _, v in first):
            leafs = [(l, v) for l, v in leafs if l != 'str']
        return list(first) + leafs

    def anyjson(s, name, strL=3, extra=(), first=()):
        return s.any(name, s._leafs_after(first, name, strL, extra))

    def anyvalue(s, name, strL=3, first=()):
        """every JSON kind plus the exotic pool of concrete non-JSON Python values"""
        return s.any(name, s._leafs_after(first, name, strL, EXOTIC))

    def sdict(s, name, entries, optional=True, frozen=False):
        """entries: list of (key, value) or (key, value, presence); presence symbolic if optional"""
        name = s.ns + name
        slots = []
        for i, e in enumerate(entries):
            k, v = e[0], e[1]
            p = e[2] if len(e) > 2 else (z3.Bool(f'{name}#p{i}') if optional else True)
            slots.append([p, k, v])
        cons = []
        for i in range(len(slots)):
            for j in range(i):
                ki, kj = slots[i][1], slots[j][1]
                if isinstance(ki, SStr) or isinstance(kj, SStr):
                    eq = ki.eq_sym(kj) if isinstance(ki, SStr) and isinstance(kj, SStr) else (
                        ki.eq_conc(kj) if isinstance(ki, SStr) else kj.eq_conc(ki))
                    cons.append(z3.Implies(z3.And(zb(slots[i][0]), zb(slots[j][0])), z3.Not(eq)))
        if cons:
            s.eng.domain(('tsdict', name, len(slots)), z3.And(cons))
        d = SDict(slots, name)
        d.frozen = frozen
        return d

    def slist(s, name, items, frozen=False):
        name = s.ns + name
        n = z3.Int(name + '#len')
        s.eng.domain(('tslist', name, len(items)), z3.And(n >= 0, n <= len(items)))
        l = SList(items, n, name)
        l.frozen = frozen
        return l

    def payload(s, name, pytype=dict):
        """a JSON value nobody inspects; equal payloads have equal ids"""
        name = s.ns + name
        pid = z3.Int(name + '#pid')
        s.eng.domain(('tpayload', name), pid >= 0)
        return Opaque(pytype, 'payload', name, pid=pid)

    def raw_bytes(s, name, L):
        name = s.ns + name
        n = z3.Int(name + '#n')
        bs = [z3.Int(f'{name}#{i}') for i in range(L)]
        s.eng.domain(('tbytes', name, L), z3.And(n >= 0, n <= L, *[z3.And(b >= 0, b <= 255) for b in bs]))
        return SBytes('raw', n=n, bs=bs, name=name)


def freeze(v):
    """mark every container reachable from a template value as a harness argument (write barrier)"""
    if isinstance(v, SAny):
        for l, x in v.alts:
            freeze(x)
    elif isinstance(v, SDict):
        v.frozen = True
        v.slots0 = [list(s) for s in v.slots]      # the argument as passed (cases are built from this, not from what the code left behind)
        for p, k, x in v.slots:
            freeze(x)
    elif isinstance(v, SList):
        v.frozen = True
        v.items0, v.n0 = list(v.items), v.n
        for x in v.items:
            freeze(x)
    elif isinstance(v, dict):
        for x in v.values():
            freeze(x)
    elif isinstance(v, (list, tuple)):
        for x in v:
            freeze(x)
    return v


# ---------- oracle helpers over template values (return z3 Bool)

def p_str(x):
    return z3.BoolVal(isinstance(x, (str, SStr)))


def p_canon(n):
    return lambda x: canon(x, n) if isinstance(x, (SStr, str)) else z3.BoolVal(False)


def p_hexeven(x):
    return canon_even(x) if isinstance(x, (SStr, str)) else z3.BoolVal(False)


def p_natural(x):
    """integral number >= 1 (True and 2.0 qualify; inf / nan / text do not)"""
    if isinstance(x, SInt):
        return x.e >= 1
    if isinstance(x, SBool):
        return x.e
    if isinstance(x, SFloat):
        return z3.And(fp_is_integral(x.e), z3.fpGEQ(x.e, fpv(1.0)))
    if isinstance(x, bool):
        return z3.BoolVal(x)
    if isinstance(x, int):
        return z3.BoolVal(x >= 1)
    if isinstance(x, float):
        return z3.BoolVal(x == x and abs(x) != math.inf and int(x) == x and x >= 1)
    return z3.BoolVal(False)


def p_int_ge1(x):
    """a Python int (or bool) >= 1 -- what verify_signable demands of its threshold"""
    if isinstance(x, SInt):
        return x.e >= 1
    if isinstance(x, SBool):
        return x.e
    if isinstance(x, bool):
        return z3.BoolVal(x)
    if isinstance(x, int):
        return z3.BoolVal(x >= 1)
    return z3.BoolVal(False)


def float_to_int(f):
    """exact integer part of a finite binary64 with |f| < 2**63"""
    return z3.BV2Int(z3.fpToSBV(z3.RTZ(), f, z3.BitVecSort(64)), True)


def num_value(x):
    """z3 Int value of an integral number template (for thresholds / versions), or None"""
    if isinstance(x, SInt):
        return x.e
    if isinstance(x, SBool):
        return z3.If(x.e, z3.IntVal(1), z3.IntVal(0))
    if isinstance(x, SFloat):
        return float_to_int(x.e)
    if isinstance(x, (bool, int)):
        return z3.IntVal(int(x))
    if isinstance(x, float) and x == x and abs(x) != math.inf:
        return z3.IntVal(int(x))
    return None


def get_slot(sd, key):
    for p, k, v in sd.slots:
        if isinstance(k, str) and k == key:
            return zb(p), v
    return z3.BoolVal(False), None


# ---------- concretisation

_REP = {}


def _repairer(m):
    """per-model choice of concrete members for non-ASCII character classes (see chartab)"""
    k = id(m)
    if k not in _REP:
        _REP.clear()
        chosen, used = {}, set()

        def rep(pairs):
            cl = CT.classes()
            out = []
            for cval, u in pairs:
                if cval < 128:
                    out.append(cval)
                    continue
                key = (cval, u)
                if key not in chosen:
                    pick = None
                    g = cl[u] if 0 <= u < len(cl) else None
                    if g is not None:
                        if any(a <= cval <= b for a, b in g['ranges']) and cval not in used:
                            pick = cval
                        else:
                            for a, b in g['ranges']:
                                for x in range(a, min(b, a + 4096) + 1):
                                    if x not in used:
                                        pick = x
                                        break
                                if pick is not None:
                                    break
                    if pick is None:
                        pick = cval
                    chosen[key] = pick
                    used.add(pick)
                out.append(chosen[key])
            return out
        _REP[k] = rep
    return _REP[k]


def conc(m, v, keys_as_refs=True):
    ev = lambda e: m.eval(e, model_completion=True)
    if isinstance(v, SAny):
        return conc(m, v.alts[ev(v.tag).as_long()][1])
    if isinstance(v, SBool):
        return bool(z3.is_true(ev(v.e)))
    if isinstance(v, SInt):
        return ev(v.e).as_long()
    if isinstance(v, SFloat):
        f = ev(v.e)
        if f.isNaN():
            return float('nan')
        if f.isInf():
            return float('-inf') if f.isNegative() else float('inf')
        bv = ev(z3.fpToIEEEBV(v.e)).as_long()
        return struct.unpack('>d', struct.pack('>Q', bv))[0]
    if isinstance(v, SStr):
        n = ev(v.n).as_long()
        pairs = []
        for c in v.chars[:n]:
            cv = ev(c).as_long()
            pairs.append((cv, ev(CT.CLS(c)).as_long() if cv >= 128 else 0))
        return ''.join(chr(x) for x in _repairer(m)(pairs))
    if isinstance(v, SDict):
        out = {}
        for p, k, x in getattr(v, 'slots0', v.slots):
            if (isinstance(p, bool) and p) or (not isinstance(p, bool) and z3.is_true(ev(p))):
                out[conc(m, k)] = conc(m, x)
        return out
    if isinstance(v, SList):
        n = ev(getattr(v, 'n0', v.n)).as_long()
        return [conc(m, x) for x in getattr(v, 'items0', v.items)[:n]]
    if isinstance(v, SSet):
        return set(conc(m, x) for g, x in zip(v.guards, v.items) if (g is True or z3.is_true(ev(zb(g)))))
    if isinstance(v, SBytes):
        if v.kind == 'raw':
            n = ev(v.n).as_long()
            return bytes(ev(b).as_long() for b in v.bs[:n])
        if v.kind == 'hex':
            return bytes.fromhex(conc(m, v.src))
        if v.kind == 'keyraw':
            return (b'%032d' % (ev(v.kid).as_long() % 10 ** 32))[-32:]
        raise ValueError('conc bytes kind ' + v.kind)
    if isinstance(v, Opaque):
        if v.what == 'payload':
            pid = ev(v.pid).as_long()
            return payload_value(v.pytype, pid)
        raise ValueError('conc opaque ' + v.what)
    if isinstance(v, KeyObj):
        return KeyRef(conc(m, v.raw).hex(), v.private)
    if isinstance(v, list):
        return [conc(m, x) for x in v]
    if isinstance(v, tuple):
        return tuple(conc(m, x) for x in v)
    if isinstance(v, dict):
        return {conc(m, k): conc(m, x) for k, x in v.items()}
    if isinstance(v, Exotic):
        return object()
    return v


def payload_value(pytype, pid):
    """a concrete JSON value of the given type, injective in pid"""
    if pytype is dict:
        return {'payload': pid}
    if pytype is list:
        return ['payload', pid]
    if pytype is str:
        return f'payload-{pid}'
    if pytype is int:
        return 1000 + pid
    if pytype is float:
        return pid + 0.5
    if pytype is bool:
        return bool(pid % 2)
    if pytype is type(None):
        return None
    if pytype is tuple:
        return ('payload', pid)
    raise ValueError(pytype)
