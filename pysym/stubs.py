"""pysym: environment stubs -- crypto boundary, SHA-256, JSON codec, file system, clock, print.

Each stub returns an arbitrary value constrained only by the library's contract
(DESIGN.md section 2.1); every stub used on a run is listed in the evidence."""
import builtins
import datetime
import io
import json
import z3
import cryptography.exceptions
from cryptography.hazmat.primitives import hashes, serialization
from cryptography.hazmat.primitives.asymmetric import ed25519
from .values import *
from .engine import Unsupported
from .interp import PyExc
from . import models
from .models import (bytes_len, bytes_eq, val_eq, alt_cases, clone, NOMODEL, SPECIAL, SPECIAL_METHODS,
                     bytes_to_hexstr, all_chars, any_char)
from . import chartab as CT

STUBS_USED = set()


def used(name):
    STUBS_USED.add(name)


# ---------------------------------------------------------------------------
# crypto boundary

def _bytes_arg(it, fr, b, what):
    b = fr.split(b)
    if isinstance(b, (bytes, bytearray, SBytes)):
        return b
    t = pytype_of(b)
    raise PyExc(TypeError(f"{what}: a bytes-like object is required, not '{t.__name__}'"))


def from_public_bytes(it, fr, cls, data):
    used('Ed25519PublicKey.from_public_bytes: ValueError iff len != 32, else a key object carrying the bytes')
    it.step('from_public_bytes')
    data = _bytes_arg(it, fr, data, 'from_public_bytes')
    if isinstance(data, (bytes, bytearray)):
        if len(data) != 32:
            raise PyExc(ValueError('An Ed25519 public key is 32 bytes long'))
    elif not it.eng.fork(bytes_len(it, data) == 32):
        raise PyExc(ValueError('An Ed25519 public key is 32 bytes long'))
    return KeyObj(raw=data, private=False)


def from_private_bytes(it, fr, cls, data):
    used('Ed25519PrivateKey.from_private_bytes: ValueError iff len != 32, else a key object carrying the bytes')
    it.step('from_private_bytes')
    data = _bytes_arg(it, fr, data, 'from_private_bytes')
    if isinstance(data, (bytes, bytearray)):
        if len(data) != 32:
            raise PyExc(ValueError('An Ed25519 private key is 32 bytes long'))
    elif not it.eng.fork(bytes_len(it, data) == 32):
        raise PyExc(ValueError('An Ed25519 private key is 32 bytes long'))
    return KeyObj(raw=data, private=True)


def generate_private(it, fr, cls):
    used('Ed25519PrivateKey.generate: a fresh arbitrary 32-byte key')
    n = it.eng.path_local['ngen'] = it.eng.path_local.get('ngen', 0) + 1
    if it.eng.path_local.get('gen_unrolled'):
        # the 32 private bytes as symbolic variables (every 32-byte string is a valid ed25519 seed)
        bs = [z3.Int(f'genkey{n}.b{j}') for j in range(32)]
        it.eng.domain(('genkey', n), z3.And([z3.And(b >= 0, b <= 255) for b in bs]))
        return KeyObj(raw=SBytes('raw', n=z3.IntVal(32), bs=bs, name=f'genkey{n}'), private=True)
    return KeyObj(raw=SBytes('keyraw', kid=z3.Int(f'genkey{n}')), private=True)


SPECIAL_METHODS[ed25519.Ed25519PublicKey.__dict__['from_public_bytes'].__func__] = from_public_bytes
SPECIAL_METHODS[ed25519.Ed25519PrivateKey.__dict__['from_private_bytes'].__func__] = from_private_bytes
SPECIAL_METHODS[ed25519.Ed25519PrivateKey.__dict__['generate'].__func__] = generate_private


def valid(it, keyraw, sig, msg):
    """uninterpreted Valid(key bytes, signature bytes, message bytes) with the Sign axiom"""
    eng = it.eng
    used('Ed25519PublicKey.verify: uninterpreted predicate Valid(key, sig, msg), Ackermannised; InvalidSignature when false or len(sig) != 64')
    v = eng.uf('Valid', [keyraw, sig, msg], lambda a, b: bytes_eq(it, a, b))
    done = eng.path_local.setdefault('valid_axioms', set())
    for S in eng.path_local.get('signs', []):
        k = (id(v), id(S))
        if k in done:
            continue
        done.add(k)
        pub = public_of(it, S.sk)
        same = zand([bytes_eq(it, keyraw, pub.raw), bytes_eq(it, sig, S), bytes_eq(it, msg, S.msg)])
        if not z3.is_false(same):
            eng.add(z3.Implies(same, v))
    return v


def public_of(it, sk):
    if sk.pub is None:
        sk.pub = KeyObj(raw=SBytes('pubraw', sk=sk), private=False)
    return sk.pub


def key_method(it, fr, obj, attr, args, kw):
    eng = it.eng
    args = [fr.split(a) for a in args]
    if not obj.private:
        if attr == 'verify' and len(args) == 2 and not kw:
            it.step('verify')
            sig = _bytes_arg(it, fr, args[0], 'verify')
            data = _bytes_arg(it, fr, args[1], 'verify')
            lenok = bytes_len(it, sig) == 64
            v = valid(it, obj.raw, sig, data)
            if eng.fork(z3.And(lenok, v)):
                return None
            raise PyExc(cryptography.exceptions.InvalidSignature())
        if attr == 'public_bytes':
            enc = args[0] if args else kw.get('encoding')
            fmt = args[1] if len(args) > 1 else kw.get('format')
            if enc is serialization.Encoding.Raw and fmt is serialization.PublicFormat.Raw:
                used('public_bytes(Raw, Raw): the 32 bytes the key object was built from')
                return obj.raw
            if enc is serialization.Encoding.Raw or fmt is serialization.PublicFormat.Raw:
                raise PyExc(ValueError('When using Raw both encoding and format must be Raw'))
            return SBytes('keyser', key=obj, enc=str(enc), fmt=str(fmt))
        if attr == 'public_bytes_raw' and not args:
            return obj.raw
        if attr in ('sign', 'public_key', 'private_bytes', 'private_bytes_raw'):
            raise PyExc(AttributeError(f"'Ed25519PublicKey' object has no attribute '{attr}'"))
    else:
        if attr == 'sign' and len(args) == 1:
            it.step('sign')
            it.eng.event('sign')
            used('Ed25519PrivateKey.sign: uninterpreted function Sign(sk, msg), 64 bytes, Valid(Pub(sk), Sign(sk,m), m)')
            data = _bytes_arg(it, fr, args[0], 'sign')
            signs = eng.path_local.setdefault('signs', [])
            for S in signs:
                if S.sk is obj and S.msg is data:
                    return S
            S = SBytes('sign', sk=obj, msg=data)
            # determinism (RFC 8032): Sign is a function of (sk, msg)
            for S2 in signs:
                same = zand([bytes_eq(it, obj.raw, S2.sk.raw), bytes_eq(it, data, S2.msg)])
                if not z3.is_false(same):
                    eng.add(z3.Implies(same, bytes_eq(it, S, S2)))
            signs.append(S)
            return S
        if attr == 'public_key' and not args:
            used('Ed25519PrivateKey.public_key: uninterpreted function Pub(sk)')
            return public_of(it, obj)
        if attr == 'private_bytes':
            enc = args[0] if args else kw.get('encoding')
            fmt = args[1] if len(args) > 1 else kw.get('format')
            if enc is serialization.Encoding.Raw and fmt is serialization.PrivateFormat.Raw:
                return obj.raw
            return SBytes('keyser', key=obj, enc=str(enc), fmt=str(fmt))
        if attr == 'private_bytes_raw' and not args:
            return obj.raw
        if attr in ('verify', 'public_bytes', 'public_bytes_raw'):
            raise PyExc(AttributeError(f"'Ed25519PrivateKey' object has no attribute '{attr}'"))
    raise Unsupported('key method ' + attr)


def real_key_method(it, fr, recv, name, args, kw):
    """a real (concrete) key object called with symbolic arguments: lift it to the stub"""
    if isinstance(recv, ed25519.Ed25519PublicKey):
        k = KeyObj(raw=recv.public_bytes(serialization.Encoding.Raw, serialization.PublicFormat.Raw), private=False)
        return key_method(it, fr, k, name, args, kw)
    if isinstance(recv, ed25519.Ed25519PrivateKey):
        k = KeyObj(raw=recv.private_bytes(serialization.Encoding.Raw, serialization.PrivateFormat.Raw, serialization.NoEncryption()), private=True)
        return key_method(it, fr, k, name, args, kw)
    return NOMODEL


# ---------------------------------------------------------------------------
# hashing

def mk_hash(it, fr, alg=None, backend=None):
    used('hashes.Hash(SHA256()): records the parts passed to update(); finalize() = SHA256(parts), injective on the byte string')
    name = type(alg).__name__ if alg is not None else '?'
    o = Opaque(object, 'hasher', None)
    o.parts = []
    o.alg = name
    o.done = False
    return o


SPECIAL[hashes.Hash] = mk_hash


def opaque_method(it, fr, obj, attr, args, kw):
    if obj.what == 'hasher':
        if attr == 'update' and len(args) == 1:
            if obj.done:
                raise PyExc(cryptography.exceptions.AlreadyFinalized('Context was already finalized.'))
            obj.parts.append(_bytes_arg(it, fr, args[0], 'update'))
            return None
        if attr == 'finalize' and not args:
            if obj.done:
                raise PyExc(cryptography.exceptions.AlreadyFinalized('Context was already finalized.'))
            obj.done = True
            return SBytes('digest', parts=list(obj.parts), alg=obj.alg)
        if attr == 'copy' and not args:
            o = Opaque(object, 'hasher', None)
            o.parts = list(obj.parts)
            o.alg = obj.alg
            o.done = obj.done
            return o
        raise Unsupported('hasher.' + attr)
    if obj.what == 'file':
        return file_method(it, fr, obj, attr, args, kw)
    if obj.what == 'dt':
        return dt_method(it, fr, obj, attr, args, kw)
    if obj.what == 'payload':
        return payload_method(it, fr, obj, attr, args, kw)
    t = obj.pytype
    if hasattr(t, attr):
        raise Unsupported(f'{t.__name__}.{attr} on opaque {obj.what}')
    raise PyExc(AttributeError(f"'{t.__name__}' object has no attribute '{attr}'"))


def payload_method(it, fr, obj, attr, args, kw):
    raise Unsupported(f'method {attr} on an opaque JSON payload')


# ---------------------------------------------------------------------------
# JSON codec (assumption A3 outside C07)

CANON_KW = (('indent', 2), ('sort_keys', True))


def struct_stamp(v, depth=0):
    """identity + mutation version of every container reachable from v"""
    if isinstance(v, SAny):
        return tuple(struct_stamp(x, depth + 1) for l, x in v.alts)
    if isinstance(v, SDict):
        return (id(v), tuple((str(p), struct_stamp(k), struct_stamp(x, depth + 1)) for p, k, x in v.slots))
    if isinstance(v, SList):
        return (id(v), str(v.n), tuple(struct_stamp(x, depth + 1) for x in v.items))
    if isinstance(v, dict):
        return (id(v), tuple((struct_stamp(k), struct_stamp(x, depth + 1)) for k, x in v.items()))
    if isinstance(v, (list, tuple)):
        return (id(v), tuple(struct_stamp(x, depth + 1) for x in v))
    if isinstance(v, Sym):
        return id(v)
    return ('c', repr(v))


def json_eq(it, a, b):
    """equality of JSON values as the canonical serialisation sees them (numbers type-exact)"""
    if isinstance(a, SAny) or isinstance(b, SAny):
        return zor([z3.And(ga, gb, json_eq(it, x, y)) for ga, x in alt_cases(a) for gb, y in alt_cases(b)])
    ta, tb = pytype_of(a), pytype_of(b)
    num = lambda t: issubclass(t, (int, float))
    if num(ta) or num(tb):
        if ta is not tb:
            return z3.BoolVal(False)
        if isinstance(a, SFloat) or isinstance(b, SFloat) or ta is float:
            from .interp import as_num
            fa, fb = as_num(a)[1], as_num(b)[1]
            # repr-based: -0.0 != 0.0, nan == nan
            return z3.Or(z3.And(z3.fpIsNaN(fa), z3.fpIsNaN(fb)), z3.fpToIEEEBV(fa) == z3.fpToIEEEBV(fb))
    if isinstance(a, Opaque) and isinstance(b, Opaque) and a.what == 'payload' and b.what == 'payload':
        return z3.And(z3.BoolVal(a.pytype is b.pytype), a.pid == b.pid)
    if (isinstance(a, Opaque) and a.what == 'payload') or (isinstance(b, Opaque) and b.what == 'payload'):
        o, x = (a, b) if isinstance(a, Opaque) else (b, a)
        if pytype_of(x) is not o.pytype:
            return z3.BoolVal(False)
        return it.eng.uf('PayloadIs', [o, x], lambda p, q: z3.BoolVal(p is q))
    if issubclass(ta, dict) and issubclass(tb, dict):
        sa, sb = models.dict_slots(a), models.dict_slots(b)

        def cov(x, y):
            return zand([z3.Implies(zb(p), zor([z3.And(zb(q), val_eq(it, None, k, k2), json_eq(it, v, v2)) for q, k2, v2 in y])) for p, k, v in x])
        return z3.And(cov(sa, sb), cov(sb, sa))
    if issubclass(ta, (list, tuple)) and issubclass(tb, (list, tuple)):
        (ia, na), (ib, nb) = models.list_items(a), models.list_items(b)
        m = min(len(ia), len(ib))
        return zand([na == nb, na <= m] + [z3.Implies(i < na, json_eq(it, ia[i], ib[i])) for i in range(m)])
    return val_eq(it, None, a, b)


def canon_of(it, value, flavour='canon'):
    """bytes token for the canonical serialisation of an engine value"""
    used('json.dumps(obj, indent=2, sort_keys=True).encode("utf-8") on symbolic obj: opaque token Canon(obj); Canon injective, Parse(Canon(v)) = v (A3; attacked by C07)')
    eng = it.eng
    eng.event('serialize', how=flavour)
    if flavour == 'canon' and not has_sym(value):
        try:
            return json.dumps(value, indent=2, sort_keys=True).encode('utf-8')      # concrete value: the real bytes
        except Exception as e:
            raise PyExc(e)
    stamp = struct_stamp(value)
    cache = eng.path_local.setdefault('canon', {})
    key = (flavour, stamp)
    if key in cache:
        return cache[key]
    pre = getattr(value, 'canon_tok', None)
    if pre is not None and getattr(value, 'canon_stamp', None) == stamp:
        tok = pre
    elif isinstance(value, Opaque) and value.what == 'payload':
        tok = value.pid
    else:
        snap = clone(it, value, deep=True)

        def eqf(x, y):
            try:
                return json_eq(it, x, y)
            except Unsupported:
                return z3.BoolVal(x is y)
        tok = eng.uf('CanonTok:' + flavour, [snap], eqf, z3.IntSort())
        # tokens of template values / payloads live in disjoint ranges (negative = derived)
        for (fl, _), other in cache.items():
            if fl == flavour and not other.tok.eq(tok):
                try:
                    e = json_eq(it, other.snapshot, snap)
                    eng.add(e == (other.tok == tok))
                except Unsupported:
                    pass
    b = SBytes('canon', tok=tok, snapshot=clone(it, value, deep=True), flavour=flavour, value=value)
    cache[key] = b
    return b


def json_dumps(it, fr, obj, *a, **kw):
    it.step('json.dumps')
    obj = fr.split(obj)
    if not has_sym(obj) and not a:
        try:
            return json.dumps(obj, **kw)
        except Exception as e:
            raise PyExc(e)
    if a or any(isinstance(v, Sym) for v in kw.values()):
        raise Unsupported('json.dumps with symbolic/positional options')
    check_serialisable(it, fr, obj, kw)
    kwkey = tuple(sorted(kw.items()))
    t = SText((('jsontext', obj, kwkey),))
    t.json_of = obj
    t.json_kw = kwkey
    return t


def check_serialisable(it, fr, obj, kw, depth=0):
    """raise what json.dumps would raise for values that are not JSON serialisable"""
    obj = fr.split(obj) if isinstance(obj, SAny) else obj
    if isinstance(obj, (SDict, dict)):
        for p, k, v in models.dict_slots(obj):
            if isinstance(p, bool) and not p:
                continue
            # absent slots do not matter; present ones must have serialisable keys and values
            kt = pytype_of(k)
            if not issubclass(kt, (str, int, float, bool, type(None))):
                if it.eng.fork(zb(p)):
                    raise PyExc(TypeError(f'keys must be str, int, float, bool or None, not {kt.__name__}'))
                continue
            if isinstance(v, SAny) or not isinstance(v, Sym):
                if isinstance(v, SAny):
                    if it.eng.fork(zb(p)):
                        check_serialisable(it, fr, v, kw, depth + 1)
                else:
                    check_serialisable(it, fr, v, kw, depth + 1)
            elif isinstance(v, (SDict, SList)):
                check_serialisable(it, fr, v, kw, depth + 1)
        return
    if isinstance(obj, SList):
        for x in obj.items:
            if not isinstance(x, SAny):
                check_serialisable(it, fr, x, kw, depth + 1)
        return
    if isinstance(obj, (list, tuple)):
        for x in obj:
            check_serialisable(it, fr, x, kw, depth + 1)
        return
    if isinstance(obj, Sym):
        t = pytype_of(obj)
        if issubclass(t, (str, int, float, bool, type(None), dict, list, tuple)):
            if isinstance(obj, SFloat) and kw.get('allow_nan') is False:
                if it.eng.fork(z3.Or(z3.fpIsNaN(obj.e), z3.fpIsInf(obj.e))):
                    raise PyExc(ValueError('Out of range float values are not JSON compliant'))
            return
        raise PyExc(TypeError(f'Object of type {t.__name__} is not JSON serializable'))
    if isinstance(obj, (str, int, float, bool, type(None))):
        return
    try:
        json.dumps(obj, **kw)
    except Exception as e:
        raise PyExc(e)


def text_encode(it, fr, text, enc):
    """encode() of a json.dumps result"""
    obj = getattr(text, 'json_of', None)
    if obj is None:
        return SBytes('enc', src=text, encoding=enc)
    kwkey = text.json_kw
    e = str(enc).lower().replace('_', '-')
    if dict(kwkey).get('ensure_ascii', True) is False and e in ('utf-8', 'utf8', 'ascii', 'latin-1'):
        # raw (unescaped) text: the strict encoder refuses lone surrogates (and, for ascii / latin-1, everything above)
        bad = _any_char_in(it, obj, (lambda c: CT.cp('surrogate', c)) if e in ('utf-8', 'utf8') else (lambda c: c >= (128 if e == 'ascii' else 256)))
        if bad is not None and it.eng.fork(bad):
            raise PyExc(UnicodeEncodeError(e, '', 0, 1, 'surrogates not allowed' if e in ('utf-8', 'utf8') else 'ordinal not in range'))
    flavour = 'canon' if (kwkey == CANON_KW and e in ('utf-8', 'utf8')) else f'dumps{kwkey}/{e}'
    return canon_of(it, obj, flavour)


def _any_char_in(it, v, pred):
    """z3 Bool: some string (key or leaf) inside the JSON value has a character satisfying pred; None if nothing symbolic / matching"""
    from .models import any_char
    out = []

    def walk(x, guard):
        if isinstance(x, SAny):
            for g, y in models.alt_cases(x):
                walk(y, z3.And(guard, g))
        elif isinstance(x, SStr):
            out.append(z3.And(guard, any_char(x, pred)))
        elif isinstance(x, str):
            if any(z3.is_true(z3.simplify(pred(z3.IntVal(ord(ch))))) for ch in x):
                out.append(guard)
        elif isinstance(x, (dict, SDict)):
            for p, k, y in models.dict_slots(x):
                walk(k, z3.And(guard, zb(p)))
                walk(y, z3.And(guard, zb(p)))
        elif isinstance(x, SList):
            for i, y in enumerate(x.items):
                walk(y, z3.And(guard, x.n > i))
        elif isinstance(x, (list, tuple)):
            for y in x:
                walk(y, guard)
        elif isinstance(x, Opaque) and x.what == 'payload':
            out.append(z3.And(guard, it.eng.uf('HasOddChar', [x], lambda a, b: z3.BoolVal(a is b))))
    walk(v, z3.BoolVal(True))
    return zor(out) if out else None


def json_loads_value(it, fr, content):
    """Parse(content) for file content / bytes values"""
    if isinstance(content, (bytes, bytearray, str)):
        try:
            return json.loads(content)
        except Exception as e:
            raise PyExc(e)
    if isinstance(content, SBytes) and content.kind == 'canon':
        used('json.load on canonical bytes: Parse(Canon(v)) = v as a JSON value (tuples come back as lists, non-string keys as their JSON spelling), a fresh copy (A3)')
        return _jsonify(clone(it, content.snapshot, deep=True))
    if isinstance(content, SBytes) and content.kind == 'cat' and getattr(content, 'ws_suffix', False):
        used('json.load ignores trailing white space after the document')
        return json_loads_value(it, fr, content.parts[0])
    if isinstance(content, Opaque) and content.what == 'notjson':
        raise PyExc(json.JSONDecodeError('Expecting value', '', 0))
    if isinstance(content, SAny):
        return json_loads_value(it, fr, fr.split(content))
    raise Unsupported('json.load of ' + (content.kind if isinstance(content, SBytes) else type(content).__name__))


def _jsonify(v):
    """what json.loads(json.dumps(v)) gives for the Python-only shapes json.dumps accepts: tuples -> lists, int / float / bool / None keys -> strings"""
    if isinstance(v, (list, tuple)):
        return [_jsonify(x) for x in v]
    if isinstance(v, dict):
        out = {}
        for k, x in v.items():
            if isinstance(k, Sym) and not issubclass(pytype_of(k), str):
                raise Unsupported('JSON round trip of a dictionary with a symbolic non-string key')
            if k is True or k is False or k is None:
                k = {True: 'true', False: 'false', None: 'null'}[k]
            elif isinstance(k, (int, float)) and not isinstance(k, Sym):
                k = json.dumps(k)
            out[k] = _jsonify(x)
        return out
    if isinstance(v, SDict):
        for sl in v.slots:
            if isinstance(sl[1], Sym) and not issubclass(pytype_of(sl[1]), str):
                raise Unsupported('JSON round trip of a dictionary with a symbolic non-string key')
            sl[2] = _jsonify(sl[2])
        return v
    if isinstance(v, SList):
        v.items = [_jsonify(x) for x in v.items]
        return v
    if isinstance(v, SAny):
        v.alts = [(l, _jsonify(x)) for l, x in v.alts]
        return v
    return v


def json_load(it, fr, fobj, **kw):
    if kw:
        raise Unsupported('json.load with options ' + ','.join(kw))
    it.step('json.load')
    fobj = fr.split(fobj)
    if isinstance(fobj, Opaque) and fobj.what == 'file':
        return json_loads_value(it, fr, file_method(it, fr, fobj, 'read', [], {}))
    if isinstance(fobj, Sym):
        raise PyExc(AttributeError(f"'{pytype_of(fobj).__name__}' object has no attribute 'read'"))
    try:
        return json.load(fobj)
    except Exception as e:
        raise PyExc(e)


def json_loads(it, fr, s, **kw):
    if kw:
        raise Unsupported('json.loads with options')
    return json_loads_value(it, fr, fr.split(s))


def json_dump(it, fr, obj, fp, *a, **kw):
    """json.dump(obj, fp, **kw) = fp.write(json.dumps(obj, **kw)); the serialisation happens while the file is open"""
    it.eng.event('serialize', how='json.dump')
    text = json_dumps(it, fr, obj, *a, **kw)
    fp = fr.split(fp)
    if isinstance(fp, Opaque) and fp.what == 'file':
        if fp.binary:
            raise PyExc(TypeError("a bytes-like object is required, not 'str'"))
        # text file: content is the encoded serialisation
        data = text_encode(it, fr, text, 'utf-8') if isinstance(text, SText) else text
        fs = get_fs(it)
        fs.files[fp.ident] = data
        fs.log.append(('write', fp.ident, data))
        it.eng.event('write', path=fp.ident)
        return None
    raise Unsupported('json.dump to ' + type(fp).__name__)


SPECIAL[json.dump] = json_dump
SPECIAL[json.dumps] = json_dumps
SPECIAL[json.load] = json_load
SPECIAL[json.loads] = json_loads


# ---------------------------------------------------------------------------
# in-memory file system

class FS:
    """path key -> content; content is bytes | str | SBytes | SStr | SText | Opaque('notjson') | SAny | None(missing)"""

    def __init__(self):
        self.files = {}
        self.log = []         # ordered events: ('open', path, mode) ('write', path, data) ('close', path)

    def snapshot(self):
        return dict(self.files)

    def replace_external(self, key, content):
        """the file is replaced from outside the code under test (os.replace of a temporary file, another process)"""
        self.files[key] = content
        self.log.append(('external', key))

    def version(self, key):
        return sum(1 for e in self.log if e[0] in ('write', 'external') and e[1] == key) + sum(1 for e in self.log if e[0] == 'open' and e[1] == key and ('w' in str(e[2]) or 'os.open' in str(e[2])))


def path_key(p):
    if isinstance(p, str):
        return p
    if isinstance(p, SStr):
        return '<' + (p.name or hex(id(p))) + '>'
    if isinstance(p, SText):
        return ''.join(path_key(x) if not (isinstance(x, tuple) and x and x[0] == 'str') else path_key(x[1]) for x in p.parts)
    if isinstance(p, (bytes,)):
        return p.decode('utf-8', 'surrogateescape')
    raise Unsupported('file name of kind ' + type(p).__name__)


def get_fs(it):
    fs = it.eng.path_local.get('fs')
    if fs is None:
        raise Unsupported('file access without a file-system stub')
    return fs


def sp_open(it, fr, file, mode='r', *a, **kw):
    used('open(): in-memory file system; opening for writing truncates at open; every write recorded in order')
    it.step('open')
    file = fr.split(file)
    mode = kw.get('mode', mode)
    if isinstance(file, Sym) and not issubclass(pytype_of(file), (str, bytes)):
        raise PyExc(TypeError(f'expected str, bytes or os.PathLike object, not {pytype_of(file).__name__}'))
    if not isinstance(file, (str, bytes, Sym)):
        if isinstance(file, int):
            raise Unsupported('open() of a file descriptor')
        if not hasattr(file, '__fspath__'):
            raise PyExc(TypeError(f'expected str, bytes or os.PathLike object, not {type(file).__name__}'))
        file = file.__fspath__()
    if not isinstance(mode, str):
        raise Unsupported('symbolic open mode')
    fs = get_fs(it)
    key = path_key(file)
    fs.log.append(('open', key, mode))
    if isinstance(fs.files.get(key), SAny):        # which alternative the file holds is decided when it is first opened
        fs.files[key] = fr.split(fs.files[key])
    binary = 'b' in mode
    if 'r' in mode and '+' not in mode:
        if fs.files.get(key) is None:
            raise PyExc(FileNotFoundError(2, 'No such file or directory', key))
    elif 'w' in mode:
        fs.files[key] = b'' if binary else ''
        it.eng.event('truncate', path=key)
    elif 'x' in mode:
        if fs.files.get(key) is not None:
            raise PyExc(FileExistsError(17, 'File exists', key))
        fs.files[key] = b'' if binary else ''
    elif 'a' in mode:
        if fs.files.get(key) is None:
            fs.files[key] = b'' if binary else ''
    else:
        raise Unsupported('open mode ' + mode)
    f = Opaque(io.BufferedIOBase if binary else io.TextIOBase, 'file', key)
    f.mode = mode
    f.binary = binary
    f.encoding = kw.get('encoding') or (a[1] if len(a) > 1 else None)
    f.closed = False
    f.pos0 = True
    return f


def file_method(it, fr, f, attr, args, kw):
    fs = get_fs(it)
    args = [fr.split(a) for a in args]
    if attr in ('__enter__',):
        return f
    if attr in ('close', '__exit__'):
        if not f.closed:
            f.closed = True
            fs.log.append(('close', f.ident))
        return None
    if f.closed:
        raise PyExc(ValueError('I/O operation on closed file.'))
    if attr == 'read' and not args:
        it.step('read')
        if 'r' not in f.mode and '+' not in f.mode:
            raise PyExc(io.UnsupportedOperation('not readable'))
        c = fs.files.get(f.ident)
        if not f.pos0:
            return b'' if f.binary else ''
        f.pos0 = False
        if f.binary:
            if isinstance(c, str):
                return c.encode('utf-8', 'surrogateescape')
            return c
        if isinstance(c, (bytes, bytearray)):
            try:
                return bytes(c).decode('utf-8')
            except Exception as e:
                raise PyExc(e)
        if isinstance(c, SBytes):
            return SText((('decoded', c),))
        return c
    if attr == 'write' and len(args) == 1:
        it.step('write')
        if not any(m in f.mode for m in 'wax+'):
            raise PyExc(io.UnsupportedOperation('not writable'))
        data = args[0]
        t = pytype_of(data)
        if f.binary and not issubclass(t, (bytes, bytearray)):
            raise PyExc(TypeError(f"a bytes-like object is required, not '{t.__name__}'"))
        if not f.binary and not issubclass(t, str):
            raise PyExc(TypeError(f'write() argument must be str, not {t.__name__}'))
        if not f.binary and getattr(data, 'json_of', None) is not None:
            # text written to a text-mode file is encoded by the file object: part of serialising the result, and it can fail
            it.eng.event('serialize', how='encode at write')
            data = text_encode(it, fr, data, getattr(f, 'encoding', None) or 'utf-8')
        cur = fs.files.get(f.ident)
        empty = cur in (b'', '', None)
        if getattr(f, 'inplace', False) and not empty:
            if f.wpos or not f.binary:
                raise Unsupported('second in-place write / text-mode in-place write')
            f.wpos = 1
            fs.files[f.ident] = overwrite_in_place(it, cur, data)
        elif empty:
            fs.files[f.ident] = data
        elif isinstance(cur, (bytes, str)) and isinstance(data, (bytes, str)):
            fs.files[f.ident] = cur + data
        elif f.binary:
            fs.files[f.ident] = SBytes('cat', parts=[cur, data])
        else:
            fs.files[f.ident] = SText((cur, data))
        fs.log.append(('write', f.ident, data))
        it.eng.event('write', path=f.ident)
        if isinstance(data, (bytes, str)):
            return len(data)
        return SInt(bytes_len(it, data)) if isinstance(data, SBytes) else SInt(it.eng.fresh('wlen', z3.IntSort()))
    if attr in ('flush',):
        return None
    if attr in ('truncate', 'seek', 'readline', 'readlines', 'writelines', 'tell'):
        raise Unsupported('file.' + attr)
    raise PyExc(AttributeError(f"file object has no attribute '{attr}'"))


def file_enter(it, fr, cm):
    cm = fr.split(cm)
    if isinstance(cm, Opaque) and cm.what == 'file':
        return cm
    if isinstance(cm, Sym):
        raise PyExc(TypeError(f"'{pytype_of(cm).__name__}' object does not support the context manager protocol"))
    if hasattr(type(cm), '__enter__') and hasattr(type(cm), '__exit__'):
        mod = (type(cm).__module__ or '').split('.')[0]
        from .interp import REAL_IO_MODULES
        if mod in REAL_IO_MODULES:
            raise Unsupported('with-statement on ' + type(cm).__name__ + ' (real I/O is not performed)')
        gf = getattr(cm, 'func', None)
        if type(cm).__name__ == '_GeneratorContextManager' and gf is not None and it.is_interp(getattr(gf, '__wrapped__', gf)):
            raise Unsupported('generator-based context manager defined by the code under test (its body would run natively)')
        if it.is_interp(getattr(type(cm).__enter__, '__func__', type(cm).__enter__)):
            return it.call(fr, cm.__enter__, [], {})        # a context manager class of the code under test: interpreted
        try:
            return cm.__enter__()           # an ordinary concrete context manager (contextlib.suppress, locks, ...)
        except Exception as e:
            raise PyExc(e)
    raise PyExc(TypeError(f"'{type(cm).__name__}' object does not support the context manager protocol"))


def file_exit(it, fr, cm, pe):
    cm = fr.split(cm)
    if isinstance(cm, Opaque) and cm.what == 'file':
        file_method(it, fr, cm, 'close', [], {})
        return False
    if not isinstance(cm, Sym) and hasattr(type(cm), '__exit__') and it.is_interp(getattr(type(cm).__exit__, '__func__', type(cm).__exit__)):
        r = it.call(fr, cm.__exit__, [None, None, None] if pe is None else [type(pe.exc), pe.exc, None], {})
        return bool(fr.truth(r)) if hasattr(fr, 'truth') else bool(r)
    if not isinstance(cm, Sym) and hasattr(type(cm), '__exit__'):
        try:
            if pe is None:
                return bool(cm.__exit__(None, None, None))
            return bool(cm.__exit__(type(pe.exc), pe.exc, None))
        except Exception as e:
            raise PyExc(e)
    return False


SPECIAL[builtins.open] = sp_open
SPECIAL[io.open] = sp_open


def sp_os_open(it, fr, path, flags, mode=0o777, *a, **kw):
    used('os.open()/os.fdopen(): in-memory file system; O_CREAT / O_EXCL / O_TRUNC honoured, without O_TRUNC the old content stays and writes overwrite it in place from offset 0')
    import os
    it.step('open')
    path, flags = fr.split(path), fr.split(flags)
    if not isinstance(flags, int):
        raise Unsupported('symbolic os.open flags')
    fs = get_fs(it)
    key = path_key(path)
    fs.log.append(('open', key, f'os.open:{flags:#o}'))
    if isinstance(fs.files.get(key), SAny):
        fs.files[key] = fr.split(fs.files[key])
    exists = fs.files.get(key) is not None
    if not exists and not flags & os.O_CREAT:
        raise PyExc(FileNotFoundError(2, 'No such file or directory', key))
    if exists and flags & os.O_CREAT and flags & os.O_EXCL:
        raise PyExc(FileExistsError(17, 'File exists', key))
    acc = flags & os.O_ACCMODE
    if not exists:
        fs.files[key] = b''
    elif flags & os.O_TRUNC and acc in (os.O_WRONLY, os.O_RDWR):
        fs.files[key] = b''
        it.eng.event('truncate', path=key)
    fd = Opaque(int, 'fd', key)
    fd.flags = flags
    return fd


def sp_fdopen(it, fr, fd, mode='r', *a, **kw):
    fd = fr.split(fd)
    mode = kw.get('mode', mode)
    if not (isinstance(fd, Opaque) and fd.what == 'fd'):
        raise Unsupported('fdopen of a descriptor that did not come from os.open')
    if not isinstance(mode, str):
        raise Unsupported('symbolic open mode')
    binary = 'b' in mode
    f = Opaque(io.BufferedIOBase if binary else io.TextIOBase, 'file', fd.ident)
    f.mode, f.binary, f.closed, f.pos0 = mode, binary, False, True
    f.inplace = 'a' not in mode         # writes start at offset 0 over whatever the file holds
    f.wpos = 0
    return f


def sp_os_stat(it, fr, path, *a, **kw):
    used('os.stat()/os.path.exists()/getsize()/getmtime(): in-memory file system; every write or outside replacement gives a strictly later modification time, sizes are free positive integers per file version')
    import types as _t
    path = fr.split(path)
    fs = get_fs(it)
    key = path_key(path)
    if isinstance(fs.files.get(key), SAny):
        fs.files[key] = fr.split(fs.files[key])
    if fs.files.get(key) is None:
        raise PyExc(FileNotFoundError(2, 'No such file or directory', key))
    v = fs.version(key)
    mt = [z3.Int(f'mtime#{key}#{i}') for i in range(v + 1)]
    sz = z3.Int(f'size#{key}#{v}')
    it.eng.domain(('stat', key, v), z3.And(sz >= 0, mt[0] >= 0, *[mt[i + 1] > mt[i] for i in range(v)]))
    return _t.SimpleNamespace(st_mtime_ns=SInt(mt[v]), st_size=SInt(sz), st_mode=0o100644, st_mtime=SInt(mt[v]), st_ino=1, st_dev=1, st_nlink=1, st_uid=0, st_gid=0)


def sp_path_exists(it, fr, path):
    path = fr.split(path)
    fs = get_fs(it)
    key = path_key(path)
    if isinstance(fs.files.get(key), SAny):
        fs.files[key] = fr.split(fs.files[key])
    return fs.files.get(key) is not None


# pathlib I/O methods go through the same in-memory file system
import pathlib as _pl


def _pl_write(binary):
    def w(it, fr, path, data, *a, **kw):
        f = sp_open(it, fr, str(path), 'wb' if binary else 'w', **({} if binary else {'encoding': kw.get('encoding') or (a[0] if a else None) or 'utf-8'}))
        try:
            return file_method(it, fr, f, 'write', [data], {})
        finally:
            file_method(it, fr, f, 'close', [], {})
    return w


def _pl_read(binary):
    def r(it, fr, path, *a, **kw):
        f = sp_open(it, fr, str(path), 'rb' if binary else 'r')
        try:
            return file_method(it, fr, f, 'read', [], {})
        finally:
            file_method(it, fr, f, 'close', [], {})
    return r


SPECIAL_METHODS[_pl.Path.write_bytes] = _pl_write(True)
SPECIAL_METHODS[_pl.Path.write_text] = _pl_write(False)
SPECIAL_METHODS[_pl.Path.read_bytes] = _pl_read(True)
SPECIAL_METHODS[_pl.Path.read_text] = _pl_read(False)
SPECIAL_METHODS[_pl.Path.open] = lambda it, fr, path, mode='r', *a, **kw: sp_open(it, fr, str(path), mode, *a, **kw)
SPECIAL_METHODS[_pl.Path.exists] = lambda it, fr, path, *a, **kw: sp_path_exists(it, fr, str(path))
SPECIAL_METHODS[_pl.Path.is_file] = lambda it, fr, path, *a, **kw: sp_path_exists(it, fr, str(path))

import os as _os
SPECIAL[_os.stat] = sp_os_stat
SPECIAL[_os.path.exists] = sp_path_exists
SPECIAL[_os.path.isfile] = sp_path_exists
SPECIAL[_os.path.getsize] = lambda it, fr, p: sp_os_stat(it, fr, p).st_size
SPECIAL[_os.path.getmtime] = lambda it, fr, p: sp_os_stat(it, fr, p).st_mtime
SPECIAL[_os.open] = sp_os_open
SPECIAL[_os.fdopen] = sp_fdopen


def overwrite_in_place(it, cur, data):
    """content after writing `data` at offset 0 over `cur` (both unrolled-able byte strings)"""
    from .models import unrollable, cap, byte_at
    if not (unrollable(cur) and unrollable(data)):
        raise Unsupported('in-place overwrite of opaque file content')
    lc, ld = bytes_len(it, cur), bytes_len(it, data)
    C = max(cap(cur), cap(data))
    bs = []
    for j in range(C):
        d = byte_at(data, j) if j < cap(data) else z3.IntVal(0)
        c = byte_at(cur, j) if j < cap(cur) else z3.IntVal(0)
        bs.append(z3.If(ld > j, d, c))
    return SBytes('raw', n=z3.If(ld >= lc, ld, lc), bs=bs, name='ovw(' + (getattr(cur, 'name', '') or 'c') + ',' + (getattr(data, 'name', '') or 'd') + ')')


# ---------------------------------------------------------------------------
# clock and time strings

US = 1000000
T_MAX = 221845392000 * US      # ~ year 9000


def dt_now(it, fr, cls=None, tz=None):
    used('datetime.utcnow()/now(): fresh clock reading (microseconds since epoch, 0 <= t < year 9000), successive reads non-decreasing')
    eng = it.eng
    reads = eng.path_local.setdefault('clock', [])
    T = z3.Int(f'clock{len(reads)}')
    eng.add(T >= (reads[-1] if reads else 0), T < T_MAX)
    reads.append(T)
    return Opaque(datetime.datetime, 'dt', None, T=T)


def dt_method(it, fr, d, attr, args, kw):
    if attr == 'replace' and not args:
        if set(kw) == {'microsecond'} and kw['microsecond'] == 0:
            return Opaque(datetime.datetime, 'dt', None, T=d.T - d.T % US)
        raise Unsupported('datetime.replace(' + ','.join(kw) + ')')
    if attr == 'isoformat' and not args and not kw:
        used('datetime.isoformat(): opaque text IsoFmt(t); IsoOK(IsoFmt(t)+"Z") iff microsecond == 0; ParseIso inverse')
        t = SText((('isofmt', d),))
        t.iso_of = d
        return t
    if attr == 'timestamp' and not args:
        raise Unsupported('datetime.timestamp()')
    if attr == 'strftime':
        raise Unsupported('datetime.strftime')
    raise Unsupported('datetime.' + attr)


def dt_add(it, fr, d, delta, sign=1):
    if isinstance(delta, datetime.timedelta):
        us = (delta.days * 86400 + delta.seconds) * US + delta.microseconds
        T = d.T + sign * us
        if it.eng.fork(z3.Or(T < -62135596800 * US, T >= 253402300800 * US)):
            raise PyExc(OverflowError('date value out of range'))
        return Opaque(datetime.datetime, 'dt', None, T=T)
    raise PyExc(TypeError(f"unsupported operand type(s) for +: 'datetime.datetime' and '{pytype_of(delta).__name__}'"))


ISO_FMT = '%Y-%m-%dT%H:%M:%SZ'


def iso_text_parts(x):
    """SText produced as isoformat() + 'Z' -> the datetime token, else None"""
    if isinstance(x, SText):
        flat = []

        def walk(p):
            if isinstance(p, SText):
                for q in p.parts:
                    walk(q)
            else:
                flat.append(p)
        walk(x)
        if len(flat) == 2 and isinstance(flat[0], tuple) and flat[0][0] == 'isofmt' and flat[1] == 'Z':
            return flat[0][1]
    return None


def strptime_model(it, fr, x, fmt):
    x = fr.split(x)
    eng = it.eng
    if isinstance(fmt, Sym):
        raise Unsupported('strptime with symbolic format')
    if isinstance(x, SStr):
        used('datetime.strptime(str, fmt): uninterpreted predicate IsoOK(str) (Ackermannised by string equality); TypeError for non-str')
        ok = eng.uf('IsoOK:' + fmt, [x], lambda a, b: a.eq_sym(b))
        if eng.fork(ok):
            T = eng.uf('ParseIso:' + fmt, [x], lambda a, b: a.eq_sym(b), z3.IntSort())
            return Opaque(datetime.datetime, 'dt', None, T=T * US)
        raise PyExc(ValueError('time data does not match format'))
    d = iso_text_parts(x)
    if d is not None and fmt == ISO_FMT:
        if eng.fork(d.T % US == 0):
            return Opaque(datetime.datetime, 'dt', None, T=d.T)
        raise PyExc(ValueError('unconverted data remains / does not match format'))
    if isinstance(x, Sym):
        if issubclass(pytype_of(x), str):
            raise Unsupported('strptime of opaque text')
        raise PyExc(TypeError(f'strptime() argument 1 must be str, not {pytype_of(x).__name__}'))
    try:
        return datetime.datetime.strptime(x, fmt)
    except Exception as e:
        raise PyExc(e)


SPECIAL[datetime.datetime.utcnow] = dt_now
SPECIAL[datetime.datetime.now] = dt_now


# ---------------------------------------------------------------------------
# print with a symbolic standard-output encoding

ENC_UTF8, ENC_ASCII, ENC_SURROGATEESCAPE = 0, 1, 2


def _raw_strs(x, top=True, mode='str'):
    """yield (SStr, how) pieces of printed text: how in {'raw','repr','ascii'}"""
    if isinstance(x, SStr):
        yield x, ('raw' if top and mode == 'str' else ('ascii' if mode == 'ascii' else 'repr'))
    elif isinstance(x, SText):
        for p in x.parts:
            if isinstance(p, tuple) and p and p[0] in ('str', 'repr', 'ascii'):
                m = p[0] if mode != 'ascii' else 'ascii'
                for y in _raw_strs(p[1], top=(p[0] == 'str'), mode=m):
                    yield y
            elif isinstance(p, tuple):
                continue
            else:
                for y in _raw_strs(p, top, mode):
                    yield y
    elif isinstance(x, SAny):
        for l, v in x.alts:
            for y in _raw_strs(v, top, mode):
                yield y
    elif isinstance(x, SDict):
        for p, k, v in x.slots:
            for y in _raw_strs(k, False, mode):
                yield y
            for y in _raw_strs(v, False, mode):
                yield y
    elif isinstance(x, SList):
        for v in x.items:
            for y in _raw_strs(v, False, mode):
                yield y
    elif isinstance(x, (list, tuple)):
        for v in x:
            for y in _raw_strs(v, False, mode):
                yield y
    elif isinstance(x, dict):
        for k, v in x.items():
            for y in _raw_strs(k, False, mode):
                yield y
            for y in _raw_strs(v, False, mode):
                yield y


def print_model(it, fr, a, k):
    eng = it.eng
    it.step('print')
    eng.event('print')
    if k.get('file') is not None:
        raise Unsupported('print(file=...)')
    enc = eng.path_local.get('stdout_enc')
    if enc is None:
        return None
    used('print(): UnicodeEncodeError iff a printed character is not encodable under the symbolic stdout encoding {utf-8 strict, ascii strict, utf-8 surrogateescape}')
    bad = []
    for x in a:
        x = fr.split(x) if isinstance(x, SAny) else x
        if isinstance(x, Sym) and not isinstance(x, (SStr, SText)):
            x = SText((('str', x),))
        if isinstance(x, str):
            if any(ord(ch) > 127 for ch in x):
                sur = any(0xD800 <= ord(ch) <= 0xDFFF for ch in x)
                esc = all(0xDC80 <= ord(ch) <= 0xDCFF for ch in x if 0xD800 <= ord(ch) <= 0xDFFF)
                bad.append(z3.Or(enc.e == ENC_ASCII, z3.And(enc.e == ENC_UTF8, z3.BoolVal(sur)),
                                 z3.And(enc.e == ENC_SURROGATEESCAPE, z3.BoolVal(sur and not esc))))
            continue
        for s, how in _raw_strs(x):
            if how == 'ascii':
                continue
            for i, c in enumerate(s.chars):
                sur = CT.cp('surrogate', c)
                if how == 'raw':
                    b = z3.Or(z3.And(enc.e == ENC_UTF8, sur), z3.And(enc.e == ENC_ASCII, c > 127),
                              z3.And(enc.e == ENC_SURROGATEESCAPE, sur, z3.Not(CT.cp('surrescape', c))))
                else:   # repr: non-printable characters (incl. surrogates) are escaped; printable non-ASCII is not
                    b = z3.And(enc.e == ENC_ASCII, c > 127, CT.cp('printable', c))
                bad.append(z3.And(i < s.n, b))
    if bad and eng.fork(zor(bad)):
        raise PyExc(UnicodeEncodeError('stdout', '', 0, 1, 'character not encodable by the standard output encoding'))
    return None
