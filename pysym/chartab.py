"""Per-character predicates over all of Unicode, extracted from the running interpreter (so the
encoding follows the Unicode database of the Python that runs the repository).

Encoding.  A character is a code-point variable c (z3 Int).  ASCII behaviour (c < 128) is encoded
exactly by a handful of intervals.  The 1.1 million non-ASCII code points are partitioned into the
equivalence classes of *all* table predicates below (a few dozen classes with CPython 3.12); the
solver sees `cls(c)` -- an uninterpreted function Int -> class index -- and every predicate on a
non-ASCII character is a small disjunction over the class index.  Classes with few members are
linked to their code points exactly; for the large classes the link is established when a model is
concretised (repair_chars picks members of the model's class, distinct code points staying
distinct), which is sound because non-ASCII code points are only ever constrained through these
predicates, (dis)equality and the class link.  This replaced 747-interval tables per character."""
import z3
from .values import memo, zor, zand

MAXCP = 0x10FFFF

PREDS = {
    'alnum': str.isalnum,
    'alpha': str.isalpha,
    'decimal': str.isdecimal,
    'digit': str.isdigit,
    'numeric': str.isnumeric,
    'space': str.isspace,
    'printable': str.isprintable,
    'lowfix': lambda ch: ch.lower() == ch,       # lower() leaves the character unchanged
    'upfix': lambda ch: ch.upper() == ch,
    'lower1': lambda ch: len(ch.lower()) == 1,
    'islower': str.islower,                      # cased and lower
    'upperish': lambda ch: ch.isupper() or ch.istitle(),
    'isupper': str.isupper,                      # cased and upper
    'lowerish': lambda ch: ch.islower() or ch.istitle(),
    'word': lambda ch: ch.isalnum() or ch == '_',
    'surrogate': lambda ch: 0xD800 <= ord(ch) <= 0xDFFF,
    'surrescape': lambda ch: 0xDC80 <= ord(ch) <= 0xDCFF,
    'latin1': lambda ch: ord(ch) <= 255,
    'bmp': lambda ch: ord(ch) <= 0xFFFF,
    'identstart': lambda ch: ch.isidentifier(),
    'dzero': lambda ch: ch.isdecimal() and _dec(ch) == 0,      # decimal digit of value 0 (int() accepts any script)
    'dlt2': lambda ch: ch.isdecimal() and _dec(ch) < 2,
    'dlt8': lambda ch: ch.isdecimal() and _dec(ch) < 8,
}


def _dec(ch):
    import unicodedata
    return unicodedata.decimal(ch)


NAMES = sorted(PREDS)
_STATE = {}


def _tables():
    """(ascii ranges per predicate, classes): classes = list of dict(sig, ranges, size)"""
    if 'classes' not in _STATE:
        preds = [PREDS[n] for n in NAMES]
        asc = {n: [] for n in NAMES}
        for n in NAMES:
            p = PREDS[n]
            start = None
            for cp_ in range(129):
                v = cp_ < 128 and bool(p(chr(cp_)))
                if v and start is None:
                    start = cp_
                elif not v and start is not None:
                    asc[n].append((start, cp_ - 1))
                    start = None
        sig = {}
        order = []
        for cp_ in range(128, MAXCP + 1):
            ch = chr(cp_)
            k = tuple(bool(p(ch)) for p in preds)
            g = sig.get(k)
            if g is None:
                g = sig[k] = dict(sig=k, ranges=[], size=0)
                order.append(g)
            if g['ranges'] and g['ranges'][-1][1] == cp_ - 1:
                g['ranges'][-1][1] = cp_
            else:
                g['ranges'].append([cp_, cp_])
            g['size'] += 1
        _STATE['ascii'] = asc
        _STATE['classes'] = order
        _STATE['idx'] = {n: i for i, n in enumerate(NAMES)}
    return _STATE['ascii'], _STATE['classes']


def classes():
    return _tables()[1]


def class_of(cp_):
    m = _STATE.setdefault('cpmap', {})
    if cp_ not in m:
        ch = chr(cp_)
        k = tuple(bool(PREDS[n](ch)) for n in NAMES)
        for j, g in enumerate(classes()):
            if g['sig'] == k:
                m[cp_] = j
                break
    return m[cp_]


def CLS(c):
    """class-index variable that accompanies the code-point variable c (a per-character Int: an uninterpreted
    function Int -> Int made z3 return `unknown` on 66-character strings; equality of characters is therefore
    always stated through char_eq, which ties the class variables of equal non-ASCII characters)"""
    if z3.is_int_value(c):
        v = c.as_long()
        return z3.IntVal(class_of(v) if v >= 128 else 0)
    return z3.Int(str(c) + '!u')


def char_eq(c, d):
    """two characters are equal (a non-ASCII character is identified by code point and class variable)"""
    if z3.is_int_value(d):
        return char_is(c, d.as_long())
    if z3.is_int_value(c):
        return char_is(d, c.as_long())
    return z3.And(c == d, z3.Or(c < 128, CLS(c) == CLS(d)))



def in_ranges(c, R):
    return zor([z3.And(c >= a, c <= b) if a != b else c == a for a, b in R])


def cp(name, c):
    """z3 Bool: code point c satisfies table predicate `name`"""
    if z3.is_int_value(c):
        v = c.as_long()
        return z3.BoolVal(0 <= v <= MAXCP and bool(PREDS[name](chr(v))))

    def mk():
        asc, cl = _tables()
        i = _STATE['idx'][name]
        js = [j for j, g in enumerate(cl) if g['sig'][i]]
        return z3.If(c < 128, in_ranges(c, asc[name]), zor([CLS(c) == j for j in js]))
    return memo(('cp', name, str(c)), mk)


def char_domain(c):
    """domain of a character variable: code point range and class index range"""
    return memo(('chardom', str(c)), lambda: z3.And(c >= 0, c <= MAXCP, CLS(c) >= 0, CLS(c) < len(classes())))


def char_is(c, codepoint):
    """c is the given code point (keeps the class function consistent for non-ASCII literals)"""
    if codepoint < 128:
        return c == codepoint
    return z3.And(c == codepoint, CLS(c) == class_of(codepoint))


def range_pred(lo, hi):
    """c in [lo, hi] for arbitrary bounds: exact on ASCII; on non-ASCII only if the range is a union of classes"""
    from .engine import Unsupported
    alo, ahi = lo, min(hi, 127)
    js = []
    if hi >= 128:
        l2 = max(lo, 128)
        for j, g in enumerate(classes()):
            inside = [(a, b) for a, b in g['ranges'] if not (b < l2 or a > hi)]
            if not inside:
                continue
            if all(a >= l2 and b <= hi for a, b in g['ranges']):
                js.append(j)
            elif g['size'] == 1 or all(a >= l2 and b <= hi for a, b in inside) and len(inside) == len(g['ranges']):
                js.append(j)
            else:
                raise Unsupported(f'character range {lo:#x}-{hi:#x} splits a Unicode class')

    def p(c):
        parts = []
        if alo <= ahi:
            parts.append(z3.And(c >= alo, c <= ahi))
        if js:
            parts.append(z3.And(c >= 128, zor([CLS(c) == j for j in js])))
        return zor(parts)
    return p


def hexlow(c):
    return memo(('hexlow', str(c)), lambda: z3.Or(z3.And(c >= 48, c <= 57), z3.And(c >= 97, c <= 102)))


def hexany(c):
    return memo(('hexany', str(c)), lambda: z3.Or(z3.And(c >= 48, c <= 57), z3.And(c >= 97, c <= 102), z3.And(c >= 65, c <= 70)))


def asciiws(c):
    """whitespace skipped by bytes.fromhex: ' ', \\t \\n \\v \\f \\r"""
    return memo(('asciiws', str(c)), lambda: z3.Or(c == 32, z3.And(c >= 9, c <= 13)))


def nib(c):
    """value of a hex digit character (only meaningful where hexany(c))"""
    return memo(('nib', str(c)), lambda: z3.If(c <= 57, c - 48, z3.If(c <= 70, c - 55, c - 87)))


def repair_chars(pairs):
    """concretisation: pairs = [(code point from the model, class index from the model)] for the characters of
    one model; returns code points where every non-ASCII character is a member of its class, equal model values
    stay equal and different ones stay different"""
    cl = classes()
    chosen = {}
    used = set()
    out = []
    for cval, u in pairs:
        if cval < 128:
            out.append(cval)
            continue
        key = (cval, u)
        if key not in chosen:
            g = cl[u] if 0 <= u < len(cl) else None
            pick = None
            if g is not None:
                if any(a <= cval <= b for a, b in g['ranges']) and cval not in used:
                    pick = cval
                else:
                    for a, b in g['ranges']:
                        for v in range(a, min(b, a + 4096) + 1):
                            if v not in used:
                                pick = v
                                break
                        if pick is not None:
                            break
            if pick is None:
                pick = cval
            chosen[key] = pick
            used.add(pick)
        out.append(chosen[key])
    return out


def digit_value_table():
    """(lo, hi, zero) intervals of Unicode decimal digits: value = cp - zero"""
    if 'decimal_blocks' not in _STATE:
        import unicodedata
        out = []
        c = 0
        while c <= MAXCP:
            if chr(c).isdecimal():
                z = c - unicodedata.decimal(chr(c))
                out.append((c, z + 9, z))
                c = z + 10
            else:
                c += 1
        _STATE['decimal_blocks'] = out
    return _STATE['decimal_blocks']
