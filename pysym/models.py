"""pysym: models of builtins / stdlib operations on symbolic operands.

Rule: a model either returns the exact result as a symbolic value, raises the exception the
real interpreter would raise (PyExc), or raises Unsupported (path inconclusive).  Models never
guess."""
import ast
import binascii
import copy as _copy
import datetime
import json
import struct
import z3
from .values import *
from .engine import Unsupported, Infeasible
from .interp import (PyExc, BoundSym, Closure, as_num, is_numkind, num_cmp, to_fp, fpv, fp_is_integral,
                     F64, RM, SuperProxy)
from . import chartab as CT

NOMODEL = object()


# ---------------------------------------------------------------------------
# grammar formulas on unrolled strings (also used by oracles)

def canon(s, n):
    """s is exactly n lower-case ASCII hex characters"""
    if not isinstance(s, SStr):
        return z3.BoolVal(isinstance(s, str) and len(s) == n and all(ch in '0123456789abcdef' for ch in s))
    if s.L < n:
        return z3.BoolVal(False)
    return memo(('canon', s.name, s.L, n) if s.name else object(),
                lambda: z3.And(s.n == n, *[CT.hexlow(c) for c in s.chars[:n]]))


def canon_even(s):
    """non-empty, even length, lower-case ASCII hex"""
    if not isinstance(s, SStr):
        return z3.BoolVal(isinstance(s, str) and len(s) > 0 and len(s) % 2 == 0 and all(ch in '0123456789abcdef' for ch in s))
    return memo(('canon_even', s.name, s.L) if s.name else object(),
                lambda: z3.And(s.n > 0, s.n % 2 == 0, *[z3.Implies(i < s.n, CT.hexlow(c)) for i, c in enumerate(s.chars)]))


def all_chars(s, pred, nonempty=False):
    f = zand([z3.Implies(i < s.n, pred(c)) for i, c in enumerate(s.chars)])
    return z3.And(s.n > 0, f) if nonempty else f


def any_char(s, pred):
    return zor([z3.And(i < s.n, pred(c)) for i, c in enumerate(s.chars)])


# ---------------------------------------------------------------------------
# bytes

def bytes_len(it, b):
    """z3 Int length of a bytes value"""
    if isinstance(b, (bytes, bytearray)):
        return z3.IntVal(len(b))
    k = b.kind
    if k == 'hex':
        return b.src.n / 2        # exact when src has no whitespace (checked at creation / use)
    if k == 'raw':
        return b.n
    if k == 'digest':
        return z3.IntVal(32)
    if k == 'packed':
        return z3.IntVal(struct.calcsize(b.fmt))
    if k == 'sign':
        return z3.IntVal(64)
    if k in ('keyraw', 'pubraw'):
        return z3.IntVal(32)
    if k == 'cat':
        return z3.Sum([bytes_len(it, p) for p in b.parts])
    if k in ('canon', 'enc'):
        ln = getattr(b, 'len_var', None)
        if ln is None:
            if k == 'canon':
                # the length is a function of the bytes: equal canonical serialisations have equal lengths
                ln = b.len_var = it.eng.uf('CanonLen', [b], lambda x, y: bytes_eq(it, x, y), sort=z3.IntSort())
            else:
                ln = b.len_var = it.eng.fresh('blen', z3.IntSort())
            it.eng.add(ln >= (2 if k == 'canon' else 0))
        return ln
    raise Unsupported('len of bytes kind ' + k)


def hex_nows(s):
    return memo(('nows', s.name, s.L) if s.name else object(),
                lambda: zand([z3.Implies(i < s.n, z3.Not(CT.asciiws(c))) for i, c in enumerate(s.chars)]))


def byte_at(b, j):
    """z3 Int value of byte j of an unrolled-able bytes value (hex / raw / concrete)"""
    if isinstance(b, (bytes, bytearray)):
        return z3.IntVal(b[j])
    if b.kind == 'hex':
        return 16 * CT.nib(b.src.chars[2 * j]) + CT.nib(b.src.chars[2 * j + 1])
    if b.kind == 'raw':
        return b.bs[j]
    raise Unsupported('byte_at ' + b.kind)


def bytes_desc_name(b):
    return {'keyraw': lambda: str(b.kid), 'pubraw': lambda: 'pub(' + bytes_desc_name(b.sk.raw) + ')'}.get(b.kind, lambda: getattr(b, 'name', '') or b.kind)()


def unrollable(b):
    return isinstance(b, (bytes, bytearray)) or (isinstance(b, SBytes) and b.kind in ('hex', 'raw'))


def cap(b):
    if isinstance(b, (bytes, bytearray)):
        return len(b)
    return b.src.L // 2 if b.kind == 'hex' else len(b.bs)


FIXED_LEN = {'digest': 32, 'sign': 64, 'keyraw': 32, 'pubraw': 32}


def _sym_uf(it, name, a, b):
    x, y = sorted([a, b], key=id)
    return it.eng.uf(name, [x, y], lambda p, q: z3.BoolVal(p is q))


def opaque_eq(it, a, b):
    """equality of two opaque bytes values of the same kind"""
    k = a.kind
    if k == 'canon':
        if a.flavour != b.flavour:
            return _sym_uf(it, 'BytesEq', a, b)
        return a.tok == b.tok
    if k == 'digest':
        if a.alg != b.alg:
            return _sym_uf(it, 'BytesEq', a, b)
        fa, fb = flatten(it, a.parts), flatten(it, b.parts)
        if fa is not None and fb is not None:
            return bytes_eq(it, fa, fb)          # SHA-256 modelled as injective on the hashed byte string
        if len(a.parts) == len(b.parts) and _aligned(it, a.parts, b.parts):
            return zand([bytes_eq(it, x, y) for x, y in zip(a.parts, b.parts)])
        return _sym_uf(it, 'DigestEq', a, b)
    if k == 'packed':
        if a.fmt == b.fmt:
            return a.e == b.e
        return _sym_uf(it, 'BytesEq', a, b)
    if k == 'sign':
        # Sign is a function: equal arguments give equal signatures (converse not assumed)
        same = zand([bytes_eq(it, a.sk.raw, b.sk.raw), bytes_eq(it, a.msg, b.msg)])
        return z3.Or(same, _sym_uf(it, 'SignEq', a, b))
    if k == 'keyraw':
        return a.kid == b.kid
    if k == 'pubraw':
        # Pub modelled as injective on the private key bytes
        return bytes_eq(it, a.sk.raw, b.sk.raw)
    if k == 'enc':
        if a.src is b.src and a.encoding == b.encoding:
            return z3.BoolVal(True)
        if a.encoding == b.encoding and isinstance(a.src, SStr) and isinstance(b.src, SStr):
            return a.src.eq_sym(b.src)
        return _sym_uf(it, 'BytesEq', a, b)
    if k == 'cat':
        if len(a.parts) == len(b.parts) and _aligned(it, a.parts, b.parts):
            return zand([bytes_eq(it, x, y) for x, y in zip(a.parts, b.parts)])
        fa, fb = flatten(it, a.parts), flatten(it, b.parts)
        if fa is not None and fb is not None:
            return bytes_eq(it, fa, fb)
        raise Unsupported('equality of concatenations')
    return _sym_uf(it, 'BytesEq', a, b)


def hex_view(it, b):
    """an SStr spelling (lower-case hex) of an opaque fixed-length bytes value, consistent across equal values"""
    eng = it.eng
    reg = eng.path_local.setdefault('hexmat', [])
    for o, s in reg:
        if o is b:
            return s
    n = FIXED_LEN[b.kind]
    eng.fresh_id += 1
    tag = f'hex!{b.kind}!{eng.fresh_id}'
    chars = [z3.Int(f'{tag}#{i}') for i in range(2 * n)]
    s = SStr(z3.IntVal(2 * n), chars, tag)
    s.hex_of = b
    eng.add(*[CT.hexlow(c) for c in chars])
    for o, s2 in reg:
        if o.kind == b.kind or True:
            try:
                e = bytes_eq(it, o, b) if o.kind != b.kind else opaque_eq(it, o, b)
            except Unsupported:
                continue
            eng.add(e == s.eq_sym(s2))
    reg.append((b, s))
    return s


def bytes_eq(it, a, b):
    """z3 Bool: two bytes values are equal"""
    if a is b:
        return z3.BoolVal(True)
    ca = isinstance(a, (bytes, bytearray))
    cb = isinstance(b, (bytes, bytearray))
    if ca and cb:
        return z3.BoolVal(bytes(a) == bytes(b))
    if not (ca or isinstance(a, SBytes)) or not (cb or isinstance(b, SBytes)):
        return z3.BoolVal(False)
    if unrollable(a) and unrollable(b):
        if isinstance(a, SBytes) and isinstance(b, SBytes) and a.kind == 'hex' and b.kind == 'hex':
            A, B = a.src, b.src
            if A.name and A.name == B.name and A.L == B.L:
                return z3.BoolVal(True)
            m = min(A.L, B.L)
            key = ('hexeq',) + tuple(sorted([(A.name, A.L), (B.name, B.L)])) if A.name and B.name else object()
            return memo(key, lambda: z3.And(A.n == B.n, A.n <= m, *[z3.Implies(i < A.n, CT.nib(A.chars[i]) == CT.nib(B.chars[i])) for i in range(m)]))
        m = min(cap(a), cap(b))
        la, lb = bytes_len(it, a), bytes_len(it, b)
        return z3.And(la == lb, la <= m, *[z3.Implies(j < la, byte_at(a, j) == byte_at(b, j)) for j in range(m)])
    # at least one side opaque
    if unrollable(a) or unrollable(b):
        u, o = (a, b) if unrollable(a) else (b, a)
        if o.kind in FIXED_LEN:
            return bytes_eq(it, u, SBytes('hex', src=hex_view(it, o)))
        if o.kind == 'packed' and isinstance(u, (bytes, bytearray)):
            try:
                (val,) = struct.unpack(o.fmt, bytes(u))
                return o.e == val
            except Exception:
                return z3.BoolVal(False)
        if o.kind == 'packed':
            f = flatten(it, [o])
            if f is not None:
                return bytes_eq(it, u, f)
        if o.kind == 'enc' and o.encoding == 'ascii-hex' and isinstance(o.src, SStr):
            # hexlify output against unrolled bytes: compare as ASCII text
            if isinstance(u, (bytes, bytearray)):
                try:
                    return o.src.eq_conc(bytes(u).decode('ascii'))
                except Exception:
                    return z3.BoolVal(False)
        if isinstance(u, (bytes, bytearray)):
            return it.eng.uf('BytesEqConst:' + bytes(u).hex(), [o], lambda x, y: z3.BoolVal(x is y))
        return _sym_uf(it, 'BytesEq', a, b)
    wa, wb = getattr(a, 'ws_suffix', False), getattr(b, 'ws_suffix', False)
    if wa or wb:
        # canonical bytes followed by white space: never equal to canonical bytes (which end in a value), equal to another such value part-wise
        if wa and wb:
            return z3.And(bytes_eq(it, a.parts[0], b.parts[0]), z3.BoolVal(bytes(a.parts[1]) == bytes(b.parts[1])))
        if (b if wa else a).kind == 'canon':
            return z3.BoolVal(False)
    if a.kind == b.kind:
        return opaque_eq(it, a, b)
    if a.kind in FIXED_LEN and b.kind in FIXED_LEN and FIXED_LEN[a.kind] != FIXED_LEN[b.kind]:
        return z3.BoolVal(False)
    return _sym_uf(it, 'BytesEq', a, b)


def _aligned(it, pa, pb):
    """two part lists have provably equal part lengths (then concatenation equality is part-wise equality)"""
    for x, y in zip(pa, pb):
        lx, ly = bytes_len(it, x), bytes_len(it, y)
        if lx.eq(ly):
            continue
        kx = x.kind if isinstance(x, SBytes) else 'c'
        ky = y.kind if isinstance(y, SBytes) else 'c'
        if kx == ky and kx in ('canon',):
            continue          # same opaque kind: equal tokens imply equal length; unequal tokens make the conjunction false anyway
        if z3.is_int_value(lx) and z3.is_int_value(ly) and lx.as_long() == ly.as_long():
            continue
        return False
    return True


def flatten(it, parts):
    """concatenate unrollable parts into one 'raw' value, or None"""
    if not all(unrollable(p) or (isinstance(p, SBytes) and p.kind == 'packed') for p in parts):
        return None
    total = sum(cap(p) if unrollable(p) else struct.calcsize(p.fmt) for p in parts)
    if total > 96:
        return None
    eng = it.eng
    key = tuple(id(p) for p in parts)
    cache = eng.path_local.setdefault('flat', {})
    if key in cache:
        return cache[key]
    n = eng.fresh('flat_n', z3.IntSort())
    bs = [eng.fresh('flat_b', z3.IntSort()) for _ in range(total)]
    off = z3.IntVal(0)
    cons = []
    for p in parts:
        if unrollable(p):
            lp = bytes_len(it, p)
            for j in range(cap(p)):
                bj = byte_at(p, j)
                # byte j of p lands at offset off+j
                for t in range(total):
                    cons.append(z3.Implies(z3.And(j < lp, off + j == t), bs[t] == bj))
            off = off + lp
        else:
            if p.fmt not in ('>I', '<I'):
                return None
            for j in range(4):
                shift = (3 - j) if p.fmt == '>I' else j
                bj = (p.e / (256 ** shift)) % 256
                for t in range(total):
                    cons.append(z3.Implies(off + j == t, bs[t] == bj))
            off = off + 4
    cons.append(n == off)
    eng.add(*cons)
    r = SBytes('raw', n=n, bs=bs, name='flat')
    cache[key] = r
    return r


def mk_hex_bytes(it, src):
    return SBytes('hex', src=src)


# ---------------------------------------------------------------------------
# general equality

def alt_cases(v):
    """(guard, value) over the alternatives of a (possibly nested) SAny / plain value"""
    if isinstance(v, SAny):
        for i, (lab, val) in enumerate(v.alts):
            for g, x in alt_cases(val):
                yield (z3.And(v.tag == i, g) if not z3.is_true(g) else v.tag == i), x
    else:
        yield z3.BoolVal(True), v


def spec_over(v, pred):
    return zor([z3.And(g, zb(pred(x))) for g, x in alt_cases(v)])


def _family(t):
    if issubclass(t, (bool, int, float)):
        return 'num'
    for f in (str, bytes, list, tuple, dict, set, frozenset, type(None)):
        if issubclass(t, f):
            return f.__name__
    return t.__name__


def val_eq(it, fr, l, r):
    """z3 Bool for python `l == r` (operands may be unsplit SAny)"""
    if isinstance(l, SAny) or isinstance(r, SAny):
        return zor([z3.And(ga, gb, val_eq(it, fr, x, y)) for ga, x in alt_cases(l) for gb, y in alt_cases(r)])
    if _keys_view(l) or _keys_view(r):
        # dict key views compare like sets (with sets, frozensets and other key views); with anything else they are unequal
        other = r if _keys_view(l) else l
        if not (_keys_view(other) or issubclass(pytype_of(other), (set, frozenset))):
            return z3.BoolVal(False)
        ia, ib = set_items(l), set_items(r)
        sub = lambda a, b: zand([z3.Implies(g, zor([z3.And(h, val_eq(it, fr, x, y)) for h, y in b])) for g, x in a])
        return z3.And(sub(ia, ib), sub(ib, ia))
    if not has_sym(l) and not has_sym(r):
        try:
            return z3.BoolVal(bool(l == r))
        except Exception as ex:
            raise PyExc(ex)
    if l is r and not isinstance(l, SFloat):
        return z3.BoolVal(True)
    if is_numkind(l) and is_numkind(r):
        return num_cmp('==', as_num(l), as_num(r))
    if isinstance(l, SLowered) or isinstance(r, SLowered):
        e = lowered_eq(it, l, r)
        if e is not None:
            return e
    tl, tr = pytype_of(l), pytype_of(r)
    fl, fr_ = _family(tl), _family(tr)
    if fl != fr_:
        if {fl, fr_} <= {'set', 'frozenset'}:
            pass
        else:
            return z3.BoolVal(False)
    if fl == 'str':
        if isinstance(l, SStr) and isinstance(r, str):
            return l.eq_conc(r)
        if isinstance(r, SStr) and isinstance(l, str):
            return r.eq_conc(l)
        if isinstance(l, SStr) and isinstance(r, SStr):
            return l.eq_sym(r)
        raise Unsupported('equality on opaque text')
    if fl in ('list', 'tuple'):
        la = list_items(l)
        lb = list_items(r)
        (ia, na), (ib, nb) = la, lb
        m = min(len(ia), len(ib))
        conds = [na == nb, na <= m]
        for i in range(m):
            conds.append(z3.Implies(i < na, val_eq(it, fr, ia[i], ib[i])))
        return zand(conds)
    if fl == 'bytes':
        return bytes_eq(it, l, r)
    if isinstance(l, Opaque) or isinstance(r, Opaque):
        if isinstance(l, Opaque) and isinstance(r, Opaque) and l.what == 'payload' and r.what == 'payload':
            return z3.And(z3.BoolVal(l.pytype is r.pytype), l.pid == r.pid)
        if (isinstance(l, Opaque) and l.what == 'payload') or (isinstance(r, Opaque) and r.what == 'payload'):
            o, x = (l, r) if isinstance(l, Opaque) else (r, l)
            return it.eng.uf('PayloadIs', [o, x], lambda p, q: z3.BoolVal(p is q))
    if fl == 'dict':
        return dict_eq(it, fr, l, r)
    if fl == 'NoneType':
        return z3.BoolVal(True)
    if fl in ('set', 'frozenset'):
        ia, ib = set_items(l), set_items(r)

        def sub(a, b):
            return zand([z3.Implies(g, zor([z3.And(h, val_eq(it, fr, x, y)) for h, y in b])) for g, x in a])
        return z3.And(sub(ia, ib), sub(ib, ia))
    if isinstance(l, Opaque) and isinstance(r, Opaque):
        if l.what == 'payload' and r.what == 'payload':
            return l.pid == r.pid
        if l.what == 'dt' and r.what == 'dt':
            return l.T == r.T
        return z3.BoolVal(l is r)
    if isinstance(l, KeyObj) or isinstance(r, KeyObj):
        return z3.BoolVal(l is r)
    raise Unsupported(f'equality {tl.__name__} / {tr.__name__}')


def list_items(x):
    """(items, z3 length)"""
    if isinstance(x, SList):
        return x.items, x.n
    return list(x), z3.IntVal(len(x))


def _keys_view(x):
    return isinstance(x, KeysList) or (isinstance(x, SView) and x.kind == 'keys') or type(x).__name__ == 'dict_keys'


def set_items(x):
    """[(guard, element)]"""
    if isinstance(x, SSet):
        return list(zip([zb(g) for g in x.guards], x.items))
    if isinstance(x, SView) and x.kind == 'keys':
        return [(zb(p), k) for p, k, v in x.d.slots]
    return [(z3.BoolVal(True), e) for e in x]


def dict_slots(d):
    if isinstance(d, SDict):
        return d.slots
    return [[True, k, v] for k, v in d.items()]


def dict_eq(it, fr, a, b):
    sa, sb = dict_slots(a), dict_slots(b)

    def covered(x, y):
        conds = []
        for p, k, v in x:
            hit = zor([z3.And(zb(q), val_eq(it, fr, k, k2), val_eq(it, fr, v, v2)) for q, k2, v2 in y])
            conds.append(z3.Implies(zb(p), hit))
        return zand(conds)
    return z3.And(covered(sa, sb), covered(sb, sa))


def materialise_case(it, lw):
    """characters of s.lower() / s.upper() as fresh variables (see SLowered)"""
    eng = it.eng
    src, low = lw.src, lw.tab == 'lowfix'
    odd = any_char(src, lambda c: z3.And(c >= 128, z3.Not(CT.cp(lw.tab, c))))
    if eng.fork(odd):
        raise Unsupported('case mapping of a non-ASCII cased character (not tabulated)')
    out, cons = [], []
    for i, c in enumerate(src.chars):
        d = z3.Int(f'{lw._name}#{i}') if lw._name else eng.fresh('case', z3.IntSort())
        asc = z3.If(z3.And(c >= 65, c <= 90), c + 32, c) if low else z3.If(z3.And(c >= 97, c <= 122), c - 32, c)
        cons.append(z3.If(c < 128, d == asc, CT.char_eq(d, c)))
        cons.append(CT.char_domain(d))
        out.append(d)
    eng.add(*cons)
    return out


def lowered_eq(it, l, r):
    if isinstance(l, SLowered) and r is l.src:
        src, tab = l.src, l.tab
    elif isinstance(r, SLowered) and l is r.src:
        src, tab = r.src, r.tab
    else:
        return None
    return memo(('lowfix', tab, src.name, src.L) if src.name else object(),
                lambda: all_chars(src, lambda c: CT.cp(tab, c)))


def key_eq(it, fr, a, b):
    """dict-key equality (== plus hash compatibility: same as == for the types we meet)"""
    return val_eq(it, fr, a, b)


def check_hashable(v):
    t = pytype_of(v)
    if issubclass(t, (list, dict, set, bytearray)):
        raise PyExc(TypeError(f"unhashable type: '{t.__name__}'"))
    if isinstance(v, tuple):
        for x in v:
            if not isinstance(x, SAny):
                check_hashable(x)


# ---------------------------------------------------------------------------
# container protocol

def _mutation(it, o, what):
    if getattr(o, 'frozen', False):
        it.eng.event('arg_mutation', what=what, obj=getattr(o, 'name', type(o).__name__))
    gc = getattr(it, 'global_containers', None)
    if gc and id(o) in gc:
        it.eng.event('global_mutation', what=what, name='.'.join(str(x) for x in gc[id(o)]))


def getitem(it, fr, o, k):
    eng = it.eng
    if isinstance(o, SDict):
        check_hashable(k)
        for p, key, val in o.slots:
            if eng.fork(z3.And(zb(p), key_eq(it, fr, k, key))):
                return val
        raise PyExc(KeyError(k if not isinstance(k, Sym) else '<symbolic>'))
    if isinstance(o, SList):
        if isinstance(k, SInt):
            for i in range(len(o.items)):
                if eng.fork(z3.And(o.n > i, z3.Or(k.e == i, k.e == i - o.n))):
                    return o.items[i]
            raise PyExc(IndexError('list index out of range'))
        if isinstance(k, Sym) or not isinstance(k, int):
            raise PyExc(TypeError('list indices must be integers or slices'))
        if k >= 0:
            if k < len(o.items) and eng.fork(o.n > k):
                return o.items[k]
            raise PyExc(IndexError('list index out of range'))
        for i in range(len(o.items)):
            if eng.fork(o.n + k == i):
                return o.items[i]
        raise PyExc(IndexError('list index out of range'))
    if isinstance(o, dict):
        if isinstance(k, Sym):
            check_hashable(k)
            for key, val in o.items():
                if eng.fork(key_eq(it, fr, k, key)):
                    return val
            raise PyExc(KeyError('<symbolic>'))
    if isinstance(o, SBytes) and unrollable(o) and isinstance(k, int) and not isinstance(k, bool):
        ln = bytes_len(it, o)
        if k >= 0:
            if k < cap(o) and eng.fork(ln > k):
                return SInt(byte_at(o, k))
            raise PyExc(IndexError('index out of range'))
        for i in range(cap(o)):
            if eng.fork(ln + k == i):
                return SInt(byte_at(o, i))
        raise PyExc(IndexError('index out of range'))
    if isinstance(o, SStr):
        if isinstance(k, int) and not isinstance(k, bool) or isinstance(k, bool):
            k = int(k)
            if k >= 0:
                if k < o.L and eng.fork(o.n > k):
                    return SStr(z3.IntVal(1), [o.chars[k]], f'{o.name}[{k}]' if o.name else '')
                raise PyExc(IndexError('string index out of range'))
            raise Unsupported('negative index into symbolic string')
        if isinstance(k, Sym) and issubclass(pytype_of(k), int):
            raise Unsupported('symbolic index into symbolic string')
        raise PyExc(TypeError('string indices must be integers, not ' + repr(pytype_of(k).__name__)))
    if isinstance(o, Sym):
        t = pytype_of(o)
        if issubclass(t, (str, list, tuple, bytes)):
            kt = pytype_of(k)
            if not issubclass(kt, (int, slice)):
                raise PyExc(TypeError(f'{t.__name__} indices must be integers or slices, not {kt.__name__}'))
            raise Unsupported('index into symbolic ' + t.__name__)
        if issubclass(t, dict):
            raise Unsupported('getitem on ' + type(o).__name__)
        raise PyExc(TypeError(f"'{t.__name__}' object is not subscriptable"))
    if isinstance(k, Sym):
        t = type(o)
        if isinstance(o, (list, tuple, str, bytes)):
            if not issubclass(pytype_of(k), int):
                raise PyExc(TypeError(f'{t.__name__} indices must be integers or slices, not {pytype_of(k).__name__}'))
            if isinstance(k, SBool):
                k = SInt(z3.If(k.e, z3.IntVal(1), z3.IntVal(0)))
            n = len(o)
            for i in range(n):
                if eng.fork(z3.Or(k.e == i, k.e == i - n)):
                    return o[i]
            raise PyExc(IndexError(f'{t.__name__} index out of range'))
        if not hasattr(o, '__getitem__'):
            raise PyExc(TypeError(f"'{t.__name__}' object is not subscriptable"))
        raise Unsupported('getitem with symbolic key on ' + t.__name__)
    try:
        return o[k]
    except Exception as ex:
        raise PyExc(ex)


def getslice(it, fr, o, lo, hi, step):
    if not has_sym(o) and not has_sym(lo) and not has_sym(hi) and not has_sym(step):
        try:
            return o[lo:hi:step]
        except Exception as ex:
            raise PyExc(ex)
    if isinstance(o, SStr) and step is None and (lo is None or isinstance(lo, int)) and (hi is None or isinstance(hi, int)):
        lo_ = lo or 0
        if lo_ >= 0 and (hi is None or hi >= 0):
            hi_ = o.L if hi is None else min(hi, o.L)
            chars = o.chars[lo_:hi_]
            n = z3.Int(f'slice_n({o.name},{lo_},{hi})') if o.name else it.eng.fresh('slice_n', z3.IntSort())
            top = o.n if hi is None else z3.If(o.n < hi, o.n, z3.IntVal(hi))
            it.eng.add(n == z3.If(top - lo_ < 0, z3.IntVal(0), top - lo_))
            return SStr(n, chars, f'{o.name}[{lo_}:{hi}]' if o.name else '')
    if isinstance(o, SStr) and step is None and lo in (None, 0) and isinstance(hi, int) and hi < 0:
        k = -hi
        n = z3.Int(f'slice_n({o.name},0,{hi})') if o.name else it.eng.fresh('slice_n', z3.IntSort())
        it.eng.add(n == z3.If(o.n - k < 0, z3.IntVal(0), o.n - k))
        return SStr(n, o.chars[:max(o.L - k, 0)], f'{o.name}[0:{hi}]' if o.name else '')
    if isinstance(o, SBytes) and unrollable(o) and step is None and (lo is None or isinstance(lo, int)) and (hi is None or isinstance(hi, int)):
        lo_ = lo or 0
        c = cap(o)
        if lo_ >= 0 and (hi is None or hi >= 0):
            hi_ = c if hi is None else min(hi, c)
            ln = bytes_len(it, o)
            top = ln if hi is None else z3.If(ln < hi, ln, z3.IntVal(hi))
            n = z3.If(top - lo_ < 0, z3.IntVal(0), top - lo_)
            return SBytes('raw', n=n, bs=[byte_at(o, j) for j in range(lo_, hi_)], name='')
    raise Unsupported('slice of symbolic value')


def _same_json(it, old, v):
    """a store of a value indistinguishable (type-exact) from the one already there is not an observable change"""
    if old is v:
        return True
    if isinstance(old, (dict, list, SDict, SList)) or isinstance(v, (dict, list, SDict, SList)):
        return False
    try:
        from . import stubs
        return it.eng.fork(stubs.json_eq(it, old, v))
    except (Unsupported, TypeError, AttributeError, z3.Z3Exception):
        return False


def to_sdict(d):
    return SDict([[True, k, v] for k, v in d.items()])


def setitem(it, fr, o, k, v):
    """returns a replacement object when a concrete dict had to become symbolic, else None"""
    eng = it.eng
    if isinstance(o, SDict):
        check_hashable(k)
        for slot in o.slots:
            p, key = slot[0], slot[1]
            if eng.fork(z3.And(zb(p), key_eq(it, fr, k, key))):
                if not (getattr(o, 'frozen', False) and _same_json(it, slot[2], v)):
                    _mutation(it, o, 'dict item store')
                slot[2] = v
                return None
        _mutation(it, o, 'dict item store')
        o.slots.append([True, k, v])
        return None
    if isinstance(o, dict):
        if isinstance(k, Sym):
            check_hashable(k)
            _mutation(it, o, 'dict item store')
            n = to_sdict(o)
            n.frozen = getattr(o, 'frozen', False)
            gc = getattr(it, 'global_containers', None)
            if gc and id(o) in gc:
                gc[id(n)] = gc[id(o)]
                it.shadow_globals[gc[id(o)]] = n
            setitem(it, fr, n, k, v)
            return n
        if not (getattr(o, 'frozen', False) and k in o and _same_json(it, o[k], v)):
            _mutation(it, o, 'dict item store')
    if isinstance(o, SList):
        _mutation(it, o, 'list item store')
        if isinstance(k, int) and 0 <= k < len(o.items) and eng.fork(o.n > k):
            o.items[k] = v
            return None
        raise Unsupported('store into symbolic list')
    if isinstance(o, Sym):
        t = pytype_of(o)
        if issubclass(t, (dict, list)):
            raise Unsupported('setitem on ' + type(o).__name__)
        raise PyExc(TypeError(f"'{t.__name__}' object does not support item assignment"))
    if isinstance(k, Sym):
        if isinstance(o, list):
            raise Unsupported('symbolic index store into list')
        raise PyExc(TypeError(f"'{type(o).__name__}' object does not support item assignment")) if not hasattr(o, '__setitem__') else Unsupported('symbolic key store')
    if isinstance(o, list):
        _mutation(it, o, 'list item store')
    try:
        o[k] = v
    except Exception as ex:
        raise PyExc(ex)
    return None


def delitem(it, fr, o, k):
    eng = it.eng
    if isinstance(o, SDict):
        check_hashable(k)
        for slot in o.slots:
            if eng.fork(z3.And(zb(slot[0]), key_eq(it, fr, k, slot[1]))):
                _mutation(it, o, 'dict item delete')
                slot[0] = False
                return
        raise PyExc(KeyError('<symbolic>'))
    if isinstance(o, dict) and isinstance(k, Sym):
        for key in list(o):
            if eng.fork(key_eq(it, fr, k, key)):
                _mutation(it, o, 'dict item delete')
                del o[key]
                return
        raise PyExc(KeyError('<symbolic>'))
    if isinstance(o, Sym) or isinstance(k, Sym):
        raise Unsupported('del on symbolic container')
    _mutation(it, o, 'item delete')
    try:
        del o[k]
    except Exception as ex:
        raise PyExc(ex)


def contains(it, fr, container, x):
    eng = it.eng
    if isinstance(container, (SDict, SView)):
        d = container if isinstance(container, SDict) else container.d
        if isinstance(container, SView) and container.kind != 'keys':
            if container.kind == 'values':
                return SBool(zor([z3.And(zb(p), val_eq(it, fr, x, v)) for p, k, v in d.slots]))
            raise Unsupported('in dict.items()')
        check_hashable(x)
        return SBool(zor([z3.And(zb(p), key_eq(it, fr, x, key)) for p, key, val in d.slots]))
    if isinstance(container, SList):
        return SBool(zor([z3.And(container.n > i, val_eq(it, fr, x, y)) for i, y in enumerate(container.items)]))
    if isinstance(container, SSet):
        check_hashable(x)
        return SBool(zor([z3.And(g, val_eq(it, fr, x, y)) for g, y in set_items(container)]))
    if isinstance(container, (list, tuple)):
        if not has_sym(container) and not isinstance(x, Sym):
            try:
                return x in container
            except Exception as ex:
                raise PyExc(ex)
        return SBool(zor([val_eq(it, fr, x, y) for y in container]))
    if isinstance(container, (dict, set, frozenset)):
        if has_sym(x):
            check_hashable(x)
            return SBool(zor([key_eq(it, fr, x, k) for k in container]))
        try:
            return x in container
        except Exception as ex:
            raise PyExc(ex)
    if isinstance(container, SStr):
        if not issubclass(pytype_of(x), str):
            raise PyExc(TypeError(f"'in <string>' requires string as left operand, not {pytype_of(x).__name__}"))
        if isinstance(x, str):
            L, m = container.L, len(x)
            if m == 0:
                return True
            return SBool(zor([z3.And(container.n >= i + m, *[CT.char_is(container.chars[i + j], ord(x[j])) for j in range(m)]) for i in range(0, L - m + 1)]))
        raise Unsupported('symbolic substring test')
    if isinstance(container, Sym):
        t = pytype_of(container)
        if issubclass(t, str):
            if not issubclass(pytype_of(x), str):
                raise PyExc(TypeError("'in <string>' requires string as left operand"))
            raise Unsupported('substring test on opaque text')
        if issubclass(t, (int, float, bool, type(None))) or isinstance(container, KeyObj):
            raise PyExc(TypeError(f"argument of type '{t.__name__}' is not iterable"))
        if issubclass(t, bytes):
            raise Unsupported('in bytes')
        raise Unsupported('contains on ' + type(container).__name__)
    if isinstance(x, Sym):
        if isinstance(container, str):
            if not issubclass(pytype_of(x), str):
                raise PyExc(TypeError(f"'in <string>' requires string as left operand, not {pytype_of(x).__name__}"))
            if isinstance(x, SStr):
                # x occurs in concrete text: some substring of it equals x
                subs = {container[i:j] for i in range(len(container) + 1) for j in range(i, min(len(container), i + x.L) + 1)}
                return SBool(zor([x.eq_conc(t) for t in subs]))
            raise Unsupported('symbolic text in concrete string')
        if isinstance(container, (bytes, bytearray)):
            raise Unsupported('symbolic in bytes')
        try:
            iter(container)
        except TypeError as ex:
            raise PyExc(ex)
        raise Unsupported('symbolic in ' + type(container).__name__)
    try:
        return x in container
    except Exception as ex:
        raise PyExc(ex)


def iterate(it, fr, x):
    eng = it.eng
    if isinstance(x, SDict):
        return [k for p, k, v in list(x.slots) if eng.fork(zb(p))]
    if isinstance(x, SView):
        out = []
        for p, k, v in list(x.d.slots):
            if eng.fork(zb(p)):
                out.append({'items': (k, v), 'keys': k, 'values': v}[x.kind])
        return out
    if isinstance(x, SList):
        out = []
        for i, y in enumerate(x.items):
            if eng.fork(x.n > i):
                out.append(y)
            else:
                break
        return out
    if isinstance(x, SSet):
        # iteration order of a set is unspecified; deduplicate
        out = []
        for g, y in set_items(x):
            if eng.fork(g) and not any(eng.fork(val_eq(it, fr, y, z)) for z in out):
                out.append(y)
        return out
    if isinstance(x, SStr):
        out = []
        for i, c in enumerate(x.chars):
            if eng.fork(x.n > i):
                out.append(SStr(z3.IntVal(1), [c], f'{x.name}[{i}]' if x.name else ''))
            else:
                break
        return out
    if isinstance(x, Sym):
        t = pytype_of(x)
        if issubclass(t, (int, float, bool, type(None))) or isinstance(x, KeyObj):
            raise PyExc(TypeError(f"'{t.__name__}' object is not iterable"))
        raise Unsupported('iterate ' + type(x).__name__)
    try:
        return list(x)
    except Exception as ex:
        raise PyExc(ex)


# ---------------------------------------------------------------------------
# arithmetic / ordering on symbolic operands

def sym_binop(it, fr, T, l, r):
    tl, tr = pytype_of(l), pytype_of(r)
    sl, sr = issubclass(tl, str), issubclass(tr, str)
    if T is ast.Add and sl and sr:
        return SText((l, r))
    if T in (ast.Add, ast.Sub) and isinstance(l, Opaque) and l.what == 'dt':
        from .stubs import dt_add
        return dt_add(it, fr, l, r, 1 if T is ast.Add else -1)
    if T is ast.Add and isinstance(r, Opaque) and r.what == 'dt':
        from .stubs import dt_add
        return dt_add(it, fr, r, l, 1)
    if is_numkind(l) and is_numkind(r):
        a, b = as_num(l), as_num(r)
        if T in (ast.Add, ast.Sub, ast.Mult):
            if a[0] == 'int' and b[0] == 'int':
                return SInt({ast.Add: a[1] + b[1], ast.Sub: a[1] - b[1], ast.Mult: a[1] * b[1]}[T])
            fa, fb = to_fp(a), to_fp(b)
            return SFloat({ast.Add: z3.fpAdd, ast.Sub: z3.fpSub, ast.Mult: z3.fpMul}[T](RM, fa, fb))
        if T in (ast.FloorDiv, ast.Mod) and a[0] == 'int' and b[0] == 'int':
            if it.eng.fork(b[1] == 0):
                raise PyExc(ZeroDivisionError('integer division or modulo by zero'))
            # python floor semantics: z3 div/mod are euclidean; agree for positive divisors
            if it.eng.fork(b[1] > 0):
                return SInt(a[1] / b[1] if T is ast.FloorDiv else a[1] % b[1])
            raise Unsupported('floor division by a negative symbolic integer')
        if T is ast.Div:
            fa, fb = to_fp(a), to_fp(b)
            zero = z3.fpIsZero(fb) if b[0] == 'float' else (b[1] == 0)
            if it.eng.fork(zero):
                raise PyExc(ZeroDivisionError('division by zero'))
            return SFloat(z3.fpDiv(RM, fa, fb))
        raise Unsupported(f'arithmetic {T.__name__} on symbolic numbers')
    ok = False
    if T is ast.Add:
        ok = any(issubclass(tl, f) and issubclass(tr, f) for f in (list, tuple, bytes))
        if issubclass(tl, list) and issubclass(tr, list):
            (ia, na), (ib, nb) = list_items(l), list_items(r)
            if z3.is_int_value(na) and z3.is_int_value(nb):
                return list(ia[:na.as_long()]) + list(ib[:nb.as_long()])
        if issubclass(tl, bytes) and issubclass(tr, bytes):
            return SBytes('cat', parts=[l, r])
    elif T is ast.Mult:
        ok = (issubclass(tl, (str, list, bytes, tuple)) and issubclass(tr, int)) or (issubclass(tr, (str, list, bytes, tuple)) and issubclass(tl, int))
    elif T is ast.Mod:
        ok = issubclass(tl, (str, bytes))
        if isinstance(l, str):
            # printf-style formatting of a concrete format with symbolic arguments: text made of the literal pieces and
            # str() / repr() / ascii() of the arguments (only %s %r %a %d %i without flags; anything else is not modelled)
            import re as _re
            args = list(r) if isinstance(r, tuple) else [r]
            pieces, pos, k = [], 0, 0
            for mm in _re.finditer(r'%(.)', l):
                pieces.append(l[pos:mm.start()])
                c = mm.group(1)
                pos = mm.end()
                if c == '%':
                    pieces.append('%')
                    continue
                if c not in 'srad i'.replace(' ', '') or k >= len(args):
                    pieces = None
                    break
                a = fr.split(args[k])
                k += 1
                if c in 'di':
                    if not issubclass(pytype_of(a), (int, float)) :
                        raise PyExc(TypeError(f'%{c} format: a real number is required, not {pytype_of(a).__name__}'))
                    pieces.append(('str', a) if isinstance(a, Sym) else str(int(a)))
                elif isinstance(a, (SStr, SText)) and c == 's':
                    pieces.append(a)
                elif isinstance(a, Sym) or has_sym(a):
                    pieces.append(({'s': 'str', 'r': 'repr', 'a': 'ascii'}[c], a))
                else:
                    pieces.append({'s': str, 'r': repr, 'a': ascii}[c](a))
            if pieces is not None and k == len(args):
                pieces.append(l[pos:])
                return SText(tuple(x for x in pieces if not (isinstance(x, str) and x == '')))
    elif T is ast.BitOr:
        ok = (issubclass(tl, (set, frozenset, dict)) and issubclass(tr, (set, frozenset, dict)))
    if not ok:
        sym = {ast.Add: '+', ast.Sub: '-', ast.Mult: '*', ast.Mod: '%', ast.FloorDiv: '//', ast.Div: '/'}.get(T, T.__name__)
        raise PyExc(TypeError(f"unsupported operand type(s) for {sym}: '{tl.__name__}' and '{tr.__name__}'"))
    raise Unsupported(f'operator {T.__name__} on {tl.__name__}, {tr.__name__}')


def sym_order(it, fr, o, l, r):
    tl, tr = pytype_of(l), pytype_of(r)
    if isinstance(l, Opaque) and isinstance(r, Opaque) and l.what == 'dt' and r.what == 'dt':
        return SBool({'<': l.T < r.T, '<=': l.T <= r.T, '>': l.T > r.T, '>=': l.T >= r.T}[o])
    if (isinstance(l, Opaque) and l.what == 'dt') or (isinstance(r, Opaque) and r.what == 'dt'):
        import datetime as _d
        other = r if isinstance(l, Opaque) and l.what == 'dt' else l
        if isinstance(other, _d.datetime):
            raise Unsupported('symbolic datetime compared with a concrete one')
    pairs = [(str, str), (list, list), (tuple, tuple), (bytes, bytes), ((set, frozenset), (set, frozenset))]
    setlike = lambda x, t: issubclass(t, (set, frozenset)) or _keys_view(x)
    if setlike(l, tl) and setlike(r, tr) and (_keys_view(l) or _keys_view(r)):
        # dict key views are set-like
        a, b = set_items(l), set_items(r)
        sub = zand([z3.Implies(g, zor([z3.And(h, val_eq(it, fr, x, y)) for h, y in b])) for g, x in a])
        sup = zand([z3.Implies(h, zor([z3.And(g, val_eq(it, fr, x, y)) for g, x in a])) for h, y in b])
        return SBool({'<=': sub, '>=': sup, '<': z3.And(sub, z3.Not(sup)), '>': z3.And(sup, z3.Not(sub))}[o])
    if not any(issubclass(tl, a) and issubclass(tr, b) for a, b in pairs):
        raise PyExc(TypeError(f"'{o}' not supported between instances of '{tl.__name__}' and '{tr.__name__}'"))
    if issubclass(tl, str) and (isinstance(l, SStr) or isinstance(l, str)) and (isinstance(r, SStr) or isinstance(r, str)):
        return SBool(str_order(it, o, l, r))
    if issubclass(tl, (set, frozenset)):
        a, b = set_items(l), set_items(r)
        sub = zand([z3.Implies(g, zor([z3.And(h, val_eq(it, fr, x, y)) for h, y in b])) for g, x in a])      # l <= r
        sup = zand([z3.Implies(h, zor([z3.And(g, val_eq(it, fr, x, y)) for g, x in a])) for h, y in b])      # l >= r
        return SBool({'<=': sub, '>=': sup, '<': z3.And(sub, z3.Not(sup)), '>': z3.And(sup, z3.Not(sub))}[o])
    raise Unsupported(f'ordering of symbolic {tl.__name__}')


def _chars_of(x):
    if isinstance(x, SStr):
        return x.chars, x.n
    return [z3.IntVal(ord(c)) for c in x], z3.IntVal(len(x))


def str_order(it, o, l, r):
    """lexicographic comparison by code point"""
    ca, na = _chars_of(l)
    cb, nb = _chars_of(r)
    m = min(len(ca), len(cb))
    lt = z3.BoolVal(False)      # built from the end: lt_i = a_i<b_i or (a_i==b_i and lt_{i+1})
    # position m: all compared chars equal -> shorter is smaller
    tail = na < nb
    acc = tail
    for i in reversed(range(m)):
        both = z3.And(i < na, i < nb)
        acc = z3.If(both, z3.Or(ca[i] < cb[i], z3.And(ca[i] == cb[i], acc)), na < nb)
    lt = acc
    eq = val_eq(it, None, l, r)
    return {'<': lt, '<=': z3.Or(lt, eq), '>': z3.And(z3.Not(lt), z3.Not(eq)), '>=': z3.Not(lt)}[o]


# ---------------------------------------------------------------------------
# builtins

def _pt(v):
    return pytype_of(v)


def _cls_ok(t, cls):
    if isinstance(cls, tuple):
        return any(_cls_ok(t, c) for c in cls)
    try:
        return issubclass(t, cls)
    except TypeError as ex:
        raise PyExc(ex)


def sp_isinstance(it, fr, x, cls):
    cls = fr.split(cls)
    if isinstance(cls, SSet):
        raise PyExc(TypeError('isinstance() arg 2 must be a type, a tuple of types, or a union'))
    if isinstance(cls, (set, frozenset, list, dict)):
        raise PyExc(TypeError('isinstance() arg 2 must be a type, a tuple of types, or a union'))
    if isinstance(x, SAny):
        if not any(isinstance(v, SAny) for l, v in x.alts):
            return SBool(zor([x.tag == i for i, (lab, v) in enumerate(x.alts) if _cls_ok(_pt(v), cls)]))
        x = fr.split(x)
    if isinstance(x, Sym):
        return _cls_ok(_pt(x), cls)
    try:
        return isinstance(x, cls)
    except Exception as ex:
        raise PyExc(ex)


def sp_type(it, fr, x, *more):
    if more:
        raise Unsupported('three-argument type()')
    x = fr.split(x)
    return _pt(x)


def sp_hasattr(it, fr, x, name):
    x = fr.split(x)
    if isinstance(x, Sym):
        if isinstance(x, KeyObj):
            pub = ('verify', 'public_bytes', 'public_bytes_raw')
            pri = ('sign', 'public_key', 'private_bytes', 'private_bytes_raw')
            return name in (pri if x.private else pub)
        return hasattr(_pt(x), name)
    return hasattr(x, name)


def sp_getattr(it, fr, x, name, *default):
    x = fr.split(x)
    if isinstance(x, Sym):
        if sp_hasattr(it, fr, x, name):
            return BoundSym(x, name)
        if default:
            return default[0]
        raise PyExc(AttributeError(name))
    try:
        return getattr(x, name, *default)
    except Exception as ex:
        raise PyExc(ex)


def sp_len(it, fr, x):
    x = fr.split(x)
    if isinstance(x, SStr):
        return SInt(x.n)
    if isinstance(x, SList):
        return SInt(x.n)
    if isinstance(x, SBytes):
        return SInt(bytes_len(it, x))
    if isinstance(x, SDict):
        return SInt(z3.Sum([z3.If(zb(p), 1, 0) for p, k, v in x.slots] + [z3.IntVal(0)]))
    if isinstance(x, SView):
        return sp_len(it, fr, x.d)
    if isinstance(x, SSet):
        cnt = z3.IntVal(0)
        its = set_items(x)
        for i, (g, a) in enumerate(its):
            dup = zor([z3.And(h, val_eq(it, fr, a, b)) for h, b in its[:i]])
            cnt = cnt + z3.If(z3.And(g, z3.Not(dup)), 1, 0)
        return SInt(cnt)
    if isinstance(x, Sym):
        t = _pt(x)
        if issubclass(t, (int, float, bool, type(None))) or isinstance(x, KeyObj) or not hasattr(t, '__len__'):
            raise PyExc(TypeError(f"object of type '{t.__name__}' has no len()"))
        raise Unsupported('len of ' + type(x).__name__)
    if has_sym(x) and isinstance(x, (list, tuple, dict)):
        return len(x)
    try:
        return len(x)
    except Exception as e:
        raise PyExc(e)


def sp_int(it, fr, x=0, *a, **kw):
    x = fr.split(x)
    eng = it.eng
    if a or kw:
        base = a[0] if a else kw.get('base')
        if isinstance(x, SStr) and isinstance(base, int):
            from .strauto import int_literal_ok
            ok = int_literal_ok(it, x, base)
            if eng.fork(ok):
                return SInt(eng.fresh('parsedint', z3.IntSort()))
            raise PyExc(ValueError('invalid literal for int()'))
        if isinstance(x, Sym):
            if issubclass(_pt(x), (bytes,)):
                raise Unsupported('int(bytes, base)')
            raise PyExc(TypeError("int() can't convert non-string with explicit base"))
        try:
            return int(x, *a, **kw)
        except Exception as e:
            raise PyExc(e)
    if isinstance(x, SInt):
        return SInt(x.e)
    if isinstance(x, SBool):
        return SInt(z3.If(x.e, z3.IntVal(1), z3.IntVal(0)))
    if isinstance(x, SFloat):
        if eng.fork(z3.fpIsNaN(x.e)):
            raise PyExc(ValueError('cannot convert float NaN to integer'))
        if eng.fork(z3.fpIsInf(x.e)):
            raise PyExc(OverflowError('cannot convert float infinity to integer'))
        lim = fpv(2.0 ** 63)
        if eng.fork(z3.And(z3.fpLT(x.e, lim), z3.fpGT(x.e, z3.fpNeg(lim)))):
            from .tmpl import float_to_int
            return SInt(float_to_int(x.e), from_float=x.e)
        return SInt(z3.ToInt(z3.fpToReal(z3.fpRoundToIntegral(z3.RTZ(), x.e))), from_float=x.e)
    if isinstance(x, SStr):
        from .strauto import int_literal_ok
        ok = int_literal_ok(it, x, 10)
        if eng.fork(ok):
            return SInt(eng.fresh('parsedint', z3.IntSort()))
        raise PyExc(ValueError('invalid literal for int() with base 10'))
    if isinstance(x, Sym):
        t = _pt(x)
        if issubclass(t, (str, bytes)):
            raise Unsupported('int() of opaque text/bytes')
        raise PyExc(TypeError(f"int() argument must be a string, a bytes-like object or a real number, not '{t.__name__}'"))
    try:
        return int(x)
    except Exception as e:
        raise PyExc(e)


def sp_float(it, fr, x=0.0):
    x = fr.split(x)
    if isinstance(x, SFloat):
        return x
    if isinstance(x, (SInt, SBool)):
        n = as_num(x)
        big = z3.Or(n[1] > 2 ** 1023 * 2 - 1, n[1] < -(2 ** 1023 * 2 - 1)) if isinstance(x, SInt) else z3.BoolVal(False)
        if it.eng.fork(big):
            raise PyExc(OverflowError('int too large to convert to float'))
        return SFloat(to_fp(n))
    if isinstance(x, Sym):
        t = _pt(x)
        if issubclass(t, (str, bytes)):
            raise Unsupported('float() of symbolic text')
        raise PyExc(TypeError(f"float() argument must be a string or a real number, not '{t.__name__}'"))
    try:
        return float(x)
    except Exception as e:
        raise PyExc(e)


def sp_bool(it, fr, x=False):
    x = fr.split(x)
    if isinstance(x, SBool):
        return x
    return fr.truth(x)


def sp_str(it, fr, x='', *a):
    x = fr.split(x)
    if isinstance(x, (SStr, SText)):
        return x
    if isinstance(x, Sym) or has_sym(x):
        if isinstance(x, SBytes) and a:
            return sym_method(it, fr, x, 'decode', list(a), {})
        return SText((('str', x),))
    try:
        return str(x, *a)
    except Exception as e:
        raise PyExc(e)


def sp_repr(it, fr, x):
    x = fr.split(x)
    if isinstance(x, Sym) or has_sym(x):
        return SText((('repr', x),))
    return repr(x)


def sp_ascii(it, fr, x):
    x = fr.split(x)
    if isinstance(x, Sym) or has_sym(x):
        return SText((('ascii', x),))
    return ascii(x)


def sp_all(it, fr, xs):
    xs = fr.iterate(xs)
    if xs and all(isinstance(x, (SBool, bool)) for x in xs) and any(isinstance(x, SBool) for x in xs):
        return SBool(zand([x.e if isinstance(x, SBool) else x for x in xs]))
    for x in xs:
        if not fr.truth(x):
            return False
    return True


def sp_any(it, fr, xs):
    xs = fr.iterate(xs)
    if xs and all(isinstance(x, (SBool, bool)) for x in xs) and any(isinstance(x, SBool) for x in xs):
        return SBool(zor([x.e if isinstance(x, SBool) else x for x in xs]))
    for x in xs:
        if fr.truth(x):
            return True
    return False


def sp_set(it, fr, x=()):
    x = fr.split(x)
    if isinstance(x, SDict) or (isinstance(x, SView) and x.kind == 'keys'):
        d = x if isinstance(x, SDict) else x.d
        live = [(p, k) for p, k, v in d.slots if not (isinstance(p, bool) and not p)]
        return SSet([k for p, k in live], [p for p, k in live])
    items = [fr.split(i) for i in fr.iterate(x)]
    for i in items:
        check_hashable(i)
    if has_sym(items):
        return SSet(items)
    try:
        return set(items)
    except Exception as e:
        raise PyExc(e)


def sp_frozenset(it, fr, x=()):
    r = sp_set(it, fr, x)
    if isinstance(r, SSet):
        r = SSet(r.items, r.guards)
        r.pytype = frozenset          # hashable; compared like a set
        return r
    return frozenset(r) if not isinstance(r, Sym) else r


def sp_list(it, fr, x=()):
    return list(fr.iterate(x))


def sp_tuple(it, fr, x=()):
    return tuple(fr.iterate(x))


def sp_dict(it, fr, *a, **kw):
    d = {}
    if a:
        src = fr.split(a[0])
        if isinstance(src, SDict):
            d = SDict([[p, k, v] for p, k, v in src.slots if not (isinstance(p, bool) and not p)])
        elif isinstance(src, dict):
            d = dict(src)
        elif isinstance(src, Sym):
            t = _pt(src)
            if issubclass(t, (int, float, type(None), bool)):
                raise PyExc(TypeError(f"'{t.__name__}' object is not iterable"))
            raise Unsupported('dict() of ' + type(src).__name__)
        else:
            for pair in fr.iterate(src):
                k, v = fr.iterate(pair)
                r = setitem(it, fr, d, fr.split(k), v)
                d = r if r is not None else d
    for k, v in kw.items():
        r = setitem(it, fr, d, k, v)
        d = r if r is not None else d
    return d


def sp_sorted(it, fr, x, **kw):
    items = fr.iterate(x)
    items = [fr.split(i) for i in items]
    if has_sym(items):
        if kw:
            raise Unsupported('sorted(key=/reverse=) on symbolic items')
        # insertion sort with symbolic comparisons (forks)
        out = []
        for v in items:
            pos = len(out)
            for i, w in enumerate(out):
                c = fr.compare(ast.Lt(), v, w)
                if fr.truth(c):
                    pos = i
                    break
            out.insert(pos, v)
        return out
    try:
        return sorted(items, **kw)
    except Exception as e:
        raise PyExc(e)


def sp_min_max(which):
    def f(it, fr, *a, **kw):
        if has_sym(list(a)):
            raise Unsupported(which.__name__ + ' on symbolic values')
        try:
            return which(*a, **kw)
        except Exception as e:
            raise PyExc(e)
    return f


def sp_min(it, fr, *a, **kw):
    vals = [fr.split(v) for v in (a if len(a) > 1 else fr.iterate(a[0]))]
    if not kw and vals and all(is_numkind(v) for v in vals):
        best = vals[0]
        for v in vals[1:]:
            if fr.truth(fr.compare(ast.Lt(), v, best)):
                best = v
        return best
    if has_sym(vals):
        raise Unsupported('min on symbolic values')
    try:
        return min(*a, **kw)
    except Exception as e:
        raise PyExc(e)


def sp_max(it, fr, *a, **kw):
    vals = [fr.split(v) for v in (a if len(a) > 1 else fr.iterate(a[0]))]
    if not kw and vals and all(is_numkind(v) for v in vals):
        best = vals[0]
        for v in vals[1:]:
            if fr.truth(fr.compare(ast.Gt(), v, best)):
                best = v
        return best
    if has_sym(vals):
        raise Unsupported('max on symbolic values')
    try:
        return max(*a, **kw)
    except Exception as e:
        raise PyExc(e)


def sp_enumerate(it, fr, x, start=0):
    return [(i + start, v) for i, v in enumerate(fr.iterate(x))]


def sp_zip(it, fr, *xs):
    return list(zip(*[fr.iterate(x) for x in xs]))


def sp_print(it, fr, *a, **k):
    from .stubs import print_model
    return print_model(it, fr, a, k)


def sp_id(it, fr, x):
    """id(): a symbolic integer per object; objects alive at the same time have different ids, an object created
    after another one died (harness: it.kill(obj)) may get the same id (address re-use after garbage collection)"""
    from .stubs import used
    used('id(): fresh integer per object, distinct among live objects; re-use after an object died is allowed')
    obj = fr.split(x) if isinstance(x, SAny) else x
    table = it.__dict__.setdefault('id_table', [])
    for o, v, alive in table:
        if o is obj:
            return SInt(v)
    v = z3.Int(f'id!{len(table)}')
    it.eng.add(v > 0, *[v != v2 for o2, v2, alive in table if alive[0]])
    table.append((obj, v, [True]))
    return SInt(v)


def kill(it, obj):
    """harness: the object is dropped (its address may be re-used by objects created later)"""
    table = it.__dict__.setdefault('id_table', [])
    for o, v, alive in table:
        if o is obj:
            alive[0] = False
            return
    # never observed through id(): register it dead so that later ids may coincide with nothing
    return


def sp_hash(it, fr, x):
    x = fr.split(x)
    if isinstance(x, Sym):
        check_hashable(x)
        raise Unsupported('hash() of symbolic value')
    try:
        return hash(x)
    except Exception as e:
        raise PyExc(e)


def sp_callable(it, fr, x):
    if isinstance(x, (Closure, BoundSym)):
        return True
    if isinstance(x, Sym):
        return False
    return callable(x)


def sp_fromhex(it, fr, x):
    x = fr.split(x)
    eng = it.eng
    if not isinstance(x, SStr):
        if isinstance(x, Sym):
            if issubclass(_pt(x), str):
                raise Unsupported('fromhex of opaque text')
            raise PyExc(TypeError(f'fromhex() argument must be str, not {_pt(x).__name__}'))
        try:
            return bytes.fromhex(x)
        except Exception as e:
            raise PyExc(e)
    if eng.fork(fromhex_ok(it, x)):
        return mk_hex_bytes(it, x)
    raise PyExc(ValueError('non-hexadecimal number found in fromhex() arg'))


def fromhex_ok(it, x):
    """bytes.fromhex(x) succeeds: hex digit pairs, ASCII whitespace allowed between pairs"""
    eng = it.eng
    key = ('fromhex_ok', x.name, x.L)
    cached = eng.path_local.get(key) if x.name else None
    if cached is not None:
        return cached
    high = z3.BoolVal(False)
    ok = z3.BoolVal(True)
    cons = []
    pre = f'fh!{x.name}!' if x.name else None
    for i, c in enumerate(x.chars):
        act = i < x.n
        skip = z3.And(z3.Not(high), CT.asciiws(c))
        ok2 = z3.Bool(f'{pre}ok{i}') if pre else eng.fresh('fh_ok', z3.BoolSort())
        hi2 = z3.Bool(f'{pre}hi{i}') if pre else eng.fresh('fh_hi', z3.BoolSort())
        cons.append(ok2 == z3.If(act, z3.And(ok, z3.Or(skip, CT.hexany(c))), ok))
        cons.append(hi2 == z3.If(act, z3.If(skip, high, z3.Not(high)), high))
        ok, high = ok2, hi2
    if pre:
        eng.domain(key, z3.And(cons))
    else:
        eng.add(*cons)
    r = z3.And(ok, z3.Not(high))
    if x.name:
        eng.path_local[key] = r
    return r


def sp_unhexlify(it, fr, x):
    x = fr.split(x)
    eng = it.eng
    if isinstance(x, SStr):
        # binascii.unhexlify(str): ASCII only, even number of hex digits, no whitespace
        ok = z3.And(x.n % 2 == 0, all_chars(x, CT.hexany))
        nonascii = any_char(x, lambda c: c > 127)
        if eng.fork(nonascii):
            raise PyExc(ValueError('string argument should contain only ASCII characters'))
        if eng.fork(ok):
            return mk_hex_bytes(it, x)
        raise PyExc(binascii.Error('Non-hexadecimal digit found / Odd-length string'))
    if isinstance(x, SBytes):
        raise Unsupported('unhexlify of symbolic bytes')
    if isinstance(x, Sym):
        t = _pt(x)
        if issubclass(t, str):
            raise Unsupported('unhexlify of opaque text')
        raise PyExc(TypeError(f"argument should be bytes, buffer or ASCII string, not '{t.__name__}'"))
    try:
        return binascii.unhexlify(x)
    except Exception as e:
        raise PyExc(e)


def bytes_to_hexstr(it, b):
    """hex spelling (lower case) of a bytes value -> SStr"""
    eng = it.eng
    if isinstance(b, SBytes) and b.kind == 'hex':
        # canonical spelling of the same bytes: equals src iff src is lower-case
        src = b.src
        name = f'hexof({src.name})' if src.name else ''
        chars = [z3.Int(f'{name}#{i}') for i in range(src.L)] if name else [eng.fresh('hx', z3.IntSort()) for _ in range(src.L)]
        out = SStr(src.n, chars, name)
        cons = []
        for i, (c, d) in enumerate(zip(src.chars, chars)):
            cons.append(z3.Implies(i < src.n, d == z3.If(z3.And(c >= 65, c <= 70), c + 32, c)))
        eng.add(*cons)
        return out
    if isinstance(b, SBytes) and b.kind in FIXED_LEN:
        return hex_view(it, b)
    if isinstance(b, SBytes) and b.kind == 'raw':
        L = len(b.bs)
        chars = [eng.fresh('hx', z3.IntSort()) for _ in range(2 * L)]
        cons = []
        for j in range(L):
            hi, lo = b.bs[j] / 16, b.bs[j] % 16
            cons.append(chars[2 * j] == z3.If(hi < 10, hi + 48, hi + 87))
            cons.append(chars[2 * j + 1] == z3.If(lo < 10, lo + 48, lo + 87))
        eng.add(*cons)
        return SStr(2 * b.n, chars, '')
    if isinstance(b, (bytes, bytearray)):
        return bytes(b).hex()
    raise Unsupported('hex of bytes kind ' + b.kind)


def sp_hexlify(it, fr, x):
    x = fr.split(x)
    if isinstance(x, SBytes):
        s = bytes_to_hexstr(it, x)
        return SBytes('enc', src=s, encoding='ascii-hex')
    if isinstance(x, Sym):
        raise PyExc(TypeError(f"a bytes-like object is required, not '{_pt(x).__name__}'"))
    try:
        return binascii.hexlify(x)
    except Exception as e:
        raise PyExc(e)


def sp_pack(it, fr, fmt, *vals):
    vals = [fr.split(v) for v in vals]
    if isinstance(fmt, str) and fmt.lstrip('><!=@') in ('B', 'H', 'L', 'Q') and len(vals) == 1 and isinstance(vals[0], (SInt, SBool)):
        n = as_num(vals[0])
        size = struct.calcsize(fmt)
        if not it.eng.fork(z3.And(n[1] >= 0, n[1] < 2 ** (8 * size))):
            raise PyExc(struct.error('argument out of range'))
        return SBytes('packed', fmt=fmt, e=n[1])
    if isinstance(fmt, str) and fmt in ('>I', '<I', '!I', '=I', 'I') and len(vals) == 1 and isinstance(vals[0], (SInt, SBool)):
        n = as_num(vals[0])
        if not it.eng.fork(z3.And(n[1] >= 0, n[1] < 2 ** 32)):
            raise PyExc(struct.error('argument out of range'))
        f2 = {'!I': '>I', '=I': '<I', 'I': '<I'}.get(fmt, fmt)
        return SBytes('packed', fmt=f2, e=n[1])
    if not has_sym(vals) and not isinstance(fmt, Sym):
        try:
            return struct.pack(fmt, *vals)
        except Exception as e:
            raise PyExc(e)
    if isinstance(fmt, str) and len(vals) == 1 and isinstance(vals[0], Sym) and not issubclass(_pt(vals[0]), int):
        raise PyExc(struct.error('required argument is not an integer'))
    raise Unsupported('struct.pack ' + repr(fmt))


def sp_int_from_bytes(it, fr, b, byteorder='big', **kw):
    b = fr.split(b)
    byteorder = kw.get('byteorder', byteorder)
    if kw.get('signed'):
        raise Unsupported('int.from_bytes(signed=True)')
    if isinstance(b, SBytes) and unrollable(b) and cap(b) <= 8 and byteorder in ('big', 'little'):
        c = cap(b)
        ln = bytes_len(it, b)
        val = z3.IntVal(0)
        for n in range(1, c + 1):
            if byteorder == 'big':
                v = z3.Sum([byte_at(b, j) * (256 ** (n - 1 - j)) for j in range(n)])
            else:
                v = z3.Sum([byte_at(b, j) * (256 ** j) for j in range(n)])
            val = z3.If(ln == n, v, val)
        return SInt(val)
    if isinstance(b, Sym):
        if issubclass(_pt(b), bytes):
            raise Unsupported('int.from_bytes of opaque bytes')
        raise PyExc(TypeError(f"cannot convert '{_pt(b).__name__}' object to bytes"))
    try:
        return int.from_bytes(b, byteorder, **kw)
    except Exception as e:
        raise PyExc(e)


def sp_int_to_bytes(it, fr, x, length=1, byteorder='big', **kw):
    x = fr.split(x)
    length = kw.get('length', length)
    byteorder = kw.get('byteorder', byteorder)
    if isinstance(x, SInt) and length == 4 and not kw.get('signed'):
        if not it.eng.fork(z3.And(x.e >= 0, x.e < 2 ** 32)):
            raise PyExc(OverflowError('int too big to convert'))
        return SBytes('packed', fmt='>I' if byteorder == 'big' else '<I', e=x.e)
    raise Unsupported('int.to_bytes')


def sp_strptime(it, fr, x, fmt):
    from .stubs import strptime_model
    return strptime_model(it, fr, x, fmt)


def sp_deepcopy(it, fr, x, memo_=None):
    return clone(it, fr.split(x), deep=True)


def sp_copy(it, fr, x):
    return clone(it, fr.split(x), deep=False)


def clone(it, v, deep, top=True):
    """structural clone with fresh identities (engine values are immutable except containers)"""
    if isinstance(v, SAny):
        if not deep and not top:
            return v
        return SAny(v.tag, [(l, clone(it, x, deep, False)) for l, x in v.alts], v.name)
    if isinstance(v, SDict):
        d = SDict([[p, k, clone(it, x, deep, False) if deep else x] for p, k, x in v.slots], v.name)
        return d
    if isinstance(v, SList):
        return SList([clone(it, x, deep, False) if deep else x for x in v.items], v.n, v.name)
    if isinstance(v, SSet):
        return SSet(list(v.items), list(v.guards))
    if isinstance(v, dict):
        return {k: (clone(it, x, deep, False) if deep else x) for k, x in v.items()}
    if isinstance(v, list):
        return [clone(it, x, deep, False) if deep else x for x in v]
    if isinstance(v, tuple):
        return tuple(clone(it, x, deep, False) for x in v) if deep else v
    if isinstance(v, set):
        return set(v)
    if isinstance(v, Opaque) and v.what == 'payload':
        # a JSON value nobody inspects: the copy is an equal value with a fresh identity
        o = Opaque(v.pytype, 'payload', v.ident, pid=v.pid)
        o.copy_of = v
        return o
    if isinstance(v, Sym):
        return v
    try:
        return _copy.deepcopy(v) if deep else _copy.copy(v)
    except Exception as ex:
        raise PyExc(ex)


SPECIAL = {
    isinstance: sp_isinstance, type: sp_type, hasattr: sp_hasattr, getattr: sp_getattr, len: sp_len,
    int: sp_int, float: sp_float, bool: sp_bool, str: sp_str, repr: sp_repr, ascii: sp_ascii,
    all: sp_all, any: sp_any, set: sp_set, frozenset: sp_frozenset, list: sp_list, tuple: sp_tuple, dict: sp_dict,
    sorted: sp_sorted, min: sp_min, max: sp_max, enumerate: sp_enumerate, zip: sp_zip,
    print: sp_print, id: sp_id, hash: sp_hash, callable: sp_callable,
    bytes.fromhex: sp_fromhex, binascii.unhexlify: sp_unhexlify, binascii.a2b_hex: sp_unhexlify,
    binascii.hexlify: sp_hexlify, binascii.b2a_hex: sp_hexlify,
    struct.pack: sp_pack, datetime.datetime.strptime: sp_strptime, int.from_bytes: sp_int_from_bytes,
    _copy.deepcopy: sp_deepcopy, _copy.copy: sp_copy,
}
SPECIAL_METHODS = {}      # function object of a classmethod -> model(it, fr, cls, *args)


def sp_sys_exit(it, fr, code=None):
    e = SystemExit(code if not isinstance(code, Sym) else '<symbolic>')
    e.sym_args = (code,)
    raise PyExc(e)


import sys as _sys
SPECIAL[_sys.exit] = sp_sys_exit
SPECIAL[exit] = sp_sys_exit if False else SPECIAL.get(exit, sp_sys_exit)

import re as _re


def _re_call(how):
    def f(it, fr, pattern, string, flags=0):
        string = fr.split(string)
        pattern = fr.split(pattern)
        if isinstance(pattern, _re.Pattern):
            pattern, flags = pattern.pattern, pattern.flags & ~_re.UNICODE
        if isinstance(string, SStr) and isinstance(pattern, str) and isinstance(flags, int):
            from .strauto import regex_match
            if it.eng.fork(regex_match(it, pattern, int(flags) & ~_re.UNICODE, string, how)):
                return Opaque(_re.Match, 'match', None)
            return None
        if isinstance(string, Sym):
            if issubclass(_pt(string), (str, bytes)):
                raise Unsupported('regex on opaque text')
            raise PyExc(TypeError('expected string or bytes-like object, got ' + repr(_pt(string).__name__)))
        if isinstance(pattern, Sym):
            raise Unsupported('symbolic regex pattern')
        try:
            return getattr(_re, how)(pattern, string, flags)
        except Exception as e:
            raise PyExc(e)
    return f


for _how in ('match', 'fullmatch', 'search'):
    SPECIAL[getattr(_re, _how)] = _re_call(_how)


def builtin_method(it, fr, fn, args, kw):
    """bound builtin methods of *concrete* receivers called with symbolic arguments"""
    recv = getattr(fn, '__self__', None)
    name = getattr(fn, '__name__', '')
    if recv is None or isinstance(recv, types_module):
        return NOMODEL
    if not has_sym(list(args)) and not has_sym(list(kw.values())) and not has_sym(recv):
        # concrete call; observe mutation of frozen / module-level containers
        if isinstance(recv, (dict, list, set)) and name in MUTATORS:
            _mutation(it, recv, f'{type(recv).__name__}.{name}')
        return NOMODEL
    if isinstance(recv, dict):
        return dict_method(it, fr, recv, name, args, kw)
    if isinstance(recv, list):
        return list_method(it, fr, recv, name, args, kw)
    if isinstance(recv, (set, frozenset)):
        return set_method(it, fr, recv, name, args, kw)
    if isinstance(recv, str):
        return concrete_str_method(it, fr, recv, name, args, kw)
    if isinstance(recv, _re.Pattern) and name in ('match', 'fullmatch', 'search') and len(args) == 1 and not kw:
        return _re_call(name)(it, fr, recv, args[0])
    from .stubs import real_key_method
    r = real_key_method(it, fr, recv, name, args, kw)
    if r is not NOMODEL:
        return r
    return NOMODEL


import types as _types
types_module = _types.ModuleType
MUTATORS = {'append', 'extend', 'insert', 'pop', 'remove', 'clear', 'update', 'setdefault', 'popitem', 'add', 'discard', 'sort', 'reverse'}


def dict_method(it, fr, d, name, args, kw):
    eng = it.eng
    args = [fr.split(a) for a in args]
    if name in ('items', 'keys', 'values') and isinstance(d, SDict):
        return SView(d, name)
    if name in ('items', 'keys', 'values') and isinstance(d, dict) and not args:
        return KeysList(d.keys()) if name == 'keys' else list(getattr(d, name)())
    if name == 'get':
        k = args[0]
        try:
            return getitem(it, fr, d, k)
        except PyExc as pe:
            if isinstance(pe.exc, KeyError):
                return args[1] if len(args) > 1 else kw.get('default')
            raise
    if name == 'copy':
        return clone(it, d, deep=False)
    if name == 'setdefault':
        k = args[0]
        try:
            return getitem(it, fr, d, k)
        except PyExc as pe:
            if not isinstance(pe.exc, KeyError):
                raise
        v = args[1] if len(args) > 1 else None
        r = setitem(it, fr, d, k, v)
        if r is not None:
            raise Unsupported('setdefault with symbolic key on concrete dict')
        return v
    if name == 'pop':
        k = args[0]
        try:
            v = getitem(it, fr, d, k)
        except PyExc as pe:
            if isinstance(pe.exc, KeyError) and len(args) > 1:
                return args[1]
            raise
        delitem(it, fr, d, k)
        return v
    if name == 'update':
        if isinstance(d, dict) and has_sym(args[0]) and not isinstance(args[0], SDict):
            raise Unsupported('dict.update on concrete dict with symbolic content')
        src = args[0] if args else {}
        for p, k, v in dict_slots(src):
            if eng.fork(zb(p)):
                r = setitem(it, fr, d, k, v)
                if r is not None:
                    raise Unsupported('update with symbolic key on concrete dict')
        for k, v in kw.items():
            setitem(it, fr, d, k, v)
        return None
    if name == 'clear':
        _mutation(it, d, 'dict.clear')
        if isinstance(d, SDict):
            for slot in d.slots:
                slot[0] = False
        else:
            d.clear()
        return None
    if name == '__contains__':
        return contains(it, fr, d, args[0])
    if name == '__getitem__':
        return getitem(it, fr, d, args[0])
    if hasattr(dict, name):
        raise Unsupported('dict.' + name)
    raise PyExc(AttributeError(f"'dict' object has no attribute '{name}'"))


def list_method(it, fr, l, name, args, kw):
    args = [fr.split(a) if name != 'append' else a for a in args]
    if isinstance(l, list):
        if name in ('append', 'extend', 'insert'):
            _mutation(it, l, 'list.' + name)
            if name == 'extend':
                l.extend(fr.iterate(args[0]))
            else:
                getattr(l, name)(*args)
            return None
        if name == 'count':
            return SInt(z3.Sum([z3.If(val_eq(it, fr, args[0], y), 1, 0) for y in l] + [z3.IntVal(0)]))
        if name == 'index':
            for i, y in enumerate(l):
                if it.eng.fork(val_eq(it, fr, args[0], y)):
                    return i
            raise PyExc(ValueError('x not in list'))
        if name == 'copy':
            return list(l)
        if name == '__contains__':
            return contains(it, fr, l, args[0])
    if isinstance(l, SList):
        if name == 'copy':
            return clone(it, l, deep=False)
        if name == 'count':
            return SInt(z3.Sum([z3.If(z3.And(l.n > i, val_eq(it, fr, args[0], y)), 1, 0) for i, y in enumerate(l.items)] + [z3.IntVal(0)]))
        if name == 'index':
            for i, y in enumerate(l.items):
                if it.eng.fork(z3.And(l.n > i, val_eq(it, fr, args[0], y))):
                    return i
            raise PyExc(ValueError('x not in list'))
        if name in MUTATORS:
            _mutation(it, l, 'list.' + name)
            if name == 'append':
                slist_extend(it, fr, l, [args[0]])
                return None
            if name == 'extend':
                slist_extend(it, fr, l, args[0])
                return None
            if name == 'remove' and len(args) == 1:
                for i, y in enumerate(list(l.items)):
                    if it.eng.fork(z3.And(l.n > i, val_eq(it, fr, args[0], y))):
                        del l.items[i]
                        l.n = l.n - 1
                        return None
                raise PyExc(ValueError('list.remove(x): x not in list'))
            if name == 'clear' and not args:
                l.items, l.n = [], z3.IntVal(0)
                return None
    if hasattr(list, name):
        raise Unsupported('list.' + name)
    raise PyExc(AttributeError(f"'list' object has no attribute '{name}'"))


def slist_extend(it, fr, l, values):
    """in-place extension of a symbolic-length list: the length is decided (one fork per possible length), the object stays the same"""
    eng = it.eng
    vals = list(fr.iterate(values))
    if not vals:
        return                      # extending by nothing changes nothing
    _mutation(it, l, 'list extend')
    C = len(l.items)
    k = C
    for j in range(C):
        if eng.fork(l.n == j):
            k = j
            break
    l.items = list(l.items[:k]) + vals
    l.n = z3.IntVal(k + len(vals))


def rebind(it, fr, old, new):
    """a concrete container had to become symbolic: replace it where the interpreter can reach it"""
    hit = False
    gc = getattr(it, 'global_containers', None)
    if gc and id(old) in gc:
        key = gc[id(old)]
        gc[id(new)] = key
        it.shadow_globals[key] = new
        hit = True
    f = fr
    while f is not None:
        for n, x in list(f.env.items()):
            if x is old:
                f.env[n] = new
                hit = True
        f = f.parent
    return hit


def set_method(it, fr, s, name, args, kw):
    args = [fr.split(a) for a in args]
    if name == 'add':
        check_hashable(args[0])
        _mutation(it, s, 'set.add')
        if isinstance(s, SSet):
            s.items.append(args[0])
            s.guards.append(True)
            return None
        if has_sym(args[0]):
            n = SSet(list(s) + [args[0]])
            if not rebind(it, fr, s, n):
                raise Unsupported('add of symbolic element to a concrete set that cannot be rebound')
            return None
        s.add(args[0])
        return None
    if name == '__contains__':
        return contains(it, fr, s, args[0])
    if name in ('issubset', 'issuperset') and len(args) == 1:
        a, b = (s, args[0]) if name == 'issubset' else (args[0], s)
        ib = fr.iterate(b)
        return SBool(zand([zor([val_eq(it, fr, x, y) for y in ib]) for x in fr.iterate(a)]))
    if hasattr(set, name):
        raise Unsupported('set.' + name)
    raise PyExc(AttributeError(f"'set' object has no attribute '{name}'"))


def concrete_str_method(it, fr, s, name, args, kw):
    args = [fr.split(a) for a in args]
    if name == 'join':
        from .strauto import SplitWS, filter_chars
        if isinstance(args[0], SplitWS):
            if s == '':
                return filter_chars(it, args[0].src, lambda c: z3.Not(CT.cp('space', c)))
            raise Unsupported('join of a whitespace split with a non-empty separator')
        parts = fr.iterate(args[0])
        out = []
        for i, p in enumerate(parts):
            p = fr.split(p)
            if not issubclass(_pt(p), str):
                raise PyExc(TypeError(f'sequence item {i}: expected str instance, {_pt(p).__name__} found'))
            if i:
                out.append(s)
            out.append(p)
        return SText(out) if has_sym(out) else ''.join(out)
    if name == 'format':
        return SText((s,) + tuple(args))
    if name in ('startswith', 'endswith', '__contains__', '__eq__'):
        raise Unsupported('str.' + name + ' with symbolic argument')
    return NOMODEL


# ---------------------------------------------------------------------------
# methods on symbolic receivers

def sym_method(it, fr, obj, attr, args, kw):
    eng = it.eng
    if isinstance(obj, SStr):
        return sstr_method(it, fr, obj, attr, args, kw)
    if isinstance(obj, SText):
        if attr == 'encode':
            from .stubs import text_encode
            return text_encode(it, fr, obj, args[0] if args else kw.get('encoding', 'utf-8'))
        if attr in ('format', 'join', 'strip', 'lower', 'upper'):
            return SText((obj,))
        if hasattr(str, attr):
            raise Unsupported('str.' + attr + ' on opaque text')
        raise PyExc(AttributeError(f"'str' object has no attribute '{attr}'"))
    if isinstance(obj, SDict):
        return dict_method(it, fr, obj, attr, args, kw)
    if isinstance(obj, SView):
        raise Unsupported('method on dict view')
    if isinstance(obj, SList):
        return list_method(it, fr, obj, attr, args, kw)
    if isinstance(obj, SSet):
        return set_method(it, fr, obj, attr, args, kw)
    if isinstance(obj, KeyObj):
        from .stubs import key_method
        return key_method(it, fr, obj, attr, args, kw)
    if isinstance(obj, SBytes):
        if attr == 'hex' and not args and not kw:
            return bytes_to_hexstr(it, obj)
        if attr == 'decode':
            if obj.kind == 'enc':
                return obj.src
            return SText((('decoded', obj),))
        if attr in ('rstrip', 'lstrip', 'strip') and unrollable(obj) and len(args) <= 1 and not kw and (not args or isinstance(args[0], (bytes, bytearray))):
            chars = bytes(args[0]) if args else b' \t\n\r\x0b\x0c'
            inset = lambda e: zor([e == c for c in set(chars)])
            C, ln = cap(obj), bytes_len(it, obj)
            lo, hi = 0, None
            if attr in ('lstrip', 'strip'):
                while lo < C and eng.fork(z3.And(ln > lo, inset(byte_at(obj, lo)))):
                    lo += 1
            if attr in ('rstrip', 'strip'):
                for h in range(C, lo - 1, -1):
                    # h is the end iff everything in [h, ln) is strippable and byte h-1 is not (or h == lo)
                    if eng.fork(z3.And(ln >= h, zand([z3.Implies(ln > j, inset(byte_at(obj, j))) for j in range(h, C)]),
                                       z3.BoolVal(True) if h == lo else z3.Not(inset(byte_at(obj, h - 1))))):
                        hi = h
                        break
                else:
                    hi = lo
                return SBytes('raw', n=z3.IntVal(hi - lo), bs=[byte_at(obj, j) for j in range(lo, hi)], name=getattr(obj, 'name', '') + '.' + attr)
            return SBytes('raw', n=ln - lo, bs=[byte_at(obj, j) for j in range(lo, C)], name=getattr(obj, 'name', '') + '.' + attr)
        if attr == 'replace' and unrollable(obj) and len(args) in (2, 3) and not kw and all(isinstance(a, (bytes, bytearray)) for a in args[:2]) and args[0] \
                and (len(args) == 2 or args[2] == -1) and cap(obj) <= 16:
            # decided position by position (one fork per possible match): exact, bounded by the template's capacity
            old, new = bytes(args[0]), bytes(args[1])
            C, ln = cap(obj), bytes_len(it, obj)
            out, i, hits = [], 0, []
            while i < C and eng.fork(ln > i):
                if i + len(old) <= C and eng.fork(z3.And(ln >= i + len(old), *[byte_at(obj, i + j) == old[j] for j in range(len(old))])):
                    out.extend(z3.IntVal(b) for b in new)
                    hits.append(i)
                    i += len(old)
                else:
                    out.append(byte_at(obj, i))
                    i += 1
            return SBytes('raw', n=z3.IntVal(len(out)), bs=out, name=(getattr(obj, 'name', '') or 'b') + f'.replace({old.hex()},{new.hex()})@{i}:{hits}')
        if attr in ('rstrip', 'lstrip', 'strip') and obj.kind in ('keyraw', 'pubraw', 'digest', 'sign') and len(args) <= 1 and not kw:
            # opaque fixed-length bytes: either nothing is stripped, or the result is out of reach of the model
            if eng.fork(z3.Bool(f'strippable#{attr}#{bytes_desc_name(obj)}')):
                raise Unsupported('bytes.' + attr + ' removes bytes of an opaque value')
            return obj
        if attr in ('isalnum', 'lower', 'upper', 'strip'):
            raise Unsupported('bytes.' + attr + ' on symbolic bytes')
        if hasattr(bytes, attr):
            raise Unsupported('bytes.' + attr)
        raise PyExc(AttributeError(f"'bytes' object has no attribute '{attr}'"))
    if isinstance(obj, Opaque):
        from .stubs import opaque_method
        return opaque_method(it, fr, obj, attr, args, kw)
    if isinstance(obj, (SInt, SBool)) and attr == 'to_bytes':
        return sp_int_to_bytes(it, fr, obj, *args, **kw)
    if isinstance(obj, SFloat) and attr == 'is_integer' and not args:
        return SBool(fp_is_integral(obj.e))
    if isinstance(obj, (SInt, SBool)) and attr in ('bit_length', 'is_integer'):
        if attr == 'is_integer':
            return True
        raise Unsupported('int.bit_length')
    t = pytype_of(obj)
    if hasattr(t, attr):
        raise Unsupported(f'{t.__name__}.{attr} on {type(obj).__name__}')
    raise PyExc(AttributeError(f"'{t.__name__}' object has no attribute '{attr}'"))


def sstr_method(it, fr, s, attr, args, kw):
    eng = it.eng
    args = [fr.split(a) for a in args]
    tabs = {'isalnum': 'alnum', 'isalpha': 'alpha', 'isdecimal': 'decimal', 'isdigit': 'digit',
            'isnumeric': 'numeric', 'isspace': 'space'}
    if attr in tabs and not args:
        t = tabs[attr]
        return SBool(memo((attr, s.name, s.L) if s.name else object(), lambda: all_chars(s, lambda c: CT.cp(t, c), nonempty=True)))
    if attr == 'isprintable' and not args:
        return SBool(all_chars(s, lambda c: CT.cp('printable', c)))
    if attr == 'isascii' and not args:
        return SBool(all_chars(s, lambda c: c <= 127))
    if attr == 'islower' and not args:
        return SBool(z3.And(all_chars(s, lambda c: z3.Not(CT.cp('upperish', c))), any_char(s, lambda c: CT.cp('islower', c))))
    if attr == 'isupper' and not args:
        # CPython: false on the first lower-case or title-case character, else true iff some character is upper-case
        return SBool(z3.And(all_chars(s, lambda c: z3.Not(CT.cp('lowerish', c))), any_char(s, lambda c: CT.cp('isupper', c))))
    if attr == 'lower' and not args:
        return SLowered(s, it, 'lowfix')
    if attr == 'upper' and not args:
        return SLowered(s, it, 'upfix')
    if attr == 'encode':
        enc = args[0] if args else kw.get('encoding', 'utf-8')
        errors = args[1] if len(args) > 1 else kw.get('errors', 'strict')
        if not isinstance(enc, str):
            raise Unsupported('encode with symbolic encoding')
        e = enc.lower().replace('_', '-')
        if errors == 'strict':
            if e in ('utf-8', 'utf8'):
                bad = any_char(s, lambda c: CT.cp('surrogate', c))
            elif e in ('ascii', 'us-ascii'):
                bad = any_char(s, lambda c: c > 127)
            elif e in ('latin-1', 'latin1', 'iso-8859-1'):
                bad = any_char(s, lambda c: z3.Not(CT.cp('latin1', c)))
            else:
                raise Unsupported('encode to ' + enc)
            if eng.fork(bad):
                raise PyExc(UnicodeEncodeError(enc, '', 0, 1, 'character not encodable'))
        return SBytes('enc', src=s, encoding=e)
    if attr in ('startswith', 'endswith') and len(args) == 1 and isinstance(args[0], str):
        t = args[0]
        m = len(t)
        if m > s.L:
            return False
        if attr == 'startswith':
            return SBool(z3.And(s.n >= m, *[CT.char_is(s.chars[i], ord(ch)) for i, ch in enumerate(t)]))
        return SBool(zor([z3.And(s.n == n, *[CT.char_is(s.chars[n - m + i], ord(ch)) for i, ch in enumerate(t)]) for n in range(m, s.L + 1)]))
    if attr in ('startswith', 'endswith') and len(args) == 1 and isinstance(args[0], tuple) and all(isinstance(t, str) for t in args[0]):
        rs = [sstr_method(it, fr, s, attr, [t], {}) for t in args[0]]
        return SBool(zor([r.e if isinstance(r, SBool) else r for r in rs]))
    if attr == 'removesuffix' and len(args) == 1 and isinstance(args[0], str):
        t = args[0]
        if not t:
            return s
        ends = sstr_method(it, fr, s, 'endswith', [t], {})
        if fr.truth(ends):
            return getslice(it, fr, s, None, -len(t), None)
        return s
    if attr == 'removeprefix' and len(args) == 1 and isinstance(args[0], str):
        t = args[0]
        if not t:
            return s
        if fr.truth(sstr_method(it, fr, s, 'startswith', [t], {})):
            return getslice(it, fr, s, len(t), None, None)
        return s
    if attr in ('strip', 'lstrip', 'rstrip', 'replace', 'split', 'casefold', 'title', 'join', 'format', 'zfill', 'translate'):
        from .strauto import str_transform
        return str_transform(it, fr, s, attr, args, kw)
    if attr == '__len__':
        return SInt(s.n)
    if attr in ('__eq__', '__ne__') and len(args) == 1:
        e = val_eq(it, fr, s, args[0])
        return SBool(e if attr == '__eq__' else z3.Not(e))
    if attr == '__contains__':
        return contains(it, fr, s, args[0])
    if attr == 'isidentifier' or attr == 'istitle':
        raise Unsupported('str.' + attr)
    if hasattr(str, attr):
        raise Unsupported('str.' + attr)
    raise PyExc(AttributeError(f"'str' object has no attribute '{attr}'"))


def with_enter(it, fr, cm):
    from .stubs import file_enter
    return file_enter(it, fr, cm)


def with_exit(it, fr, cm, pe):
    from .stubs import file_exit
    return file_exit(it, fr, cm, pe)
