"""python -m pysym.replay_runner <harness module> <cases.json> <out.json>
Runs each case on the real code through the harness module's `concrete(case)`."""
import importlib
import json
import sys
import traceback


def fresh_package():
    """every case starts from freshly executed package modules, so that module-level state written by one
    case (e.g. a memo introduced by a change under test) cannot leak into the next case of the batch"""
    import conda_content_trust
    for name in ('common', 'signing', 'authentication', 'root_signing', 'metadata_construction', 'cli'):
        m = sys.modules.get('conda_content_trust.' + name)
        try:
            if m is not None:
                importlib.reload(m)
            else:
                importlib.import_module('conda_content_trust.' + name)
        except Exception:
            pass


def main():
    modname, inp, out = sys.argv[1:4]
    module = importlib.import_module(modname)
    with open(inp) as f:
        cases = json.load(f)
    obs = []
    for c in cases:
        fresh_package()
        try:
            obs.append(module.concrete(c))
        except Exception:
            obs.append({'runner_error': traceback.format_exc()[-1500:]})
    with open(out, 'w') as f:
        json.dump(obs, f, default=repr)


if __name__ == '__main__':
    main()
