"""python -m pysym.replay_runner <harness module> <cases.json> <out.json>
Runs each case on the real code through the harness module's `concrete(case)`."""
import importlib
import json
import sys
import traceback


def main():
    modname, inp, out = sys.argv[1:4]
    module = importlib.import_module(modname)
    with open(inp) as f:
        cases = json.load(f)
    obs = []
    for c in cases:
        try:
            obs.append(module.concrete(c))
        except Exception:
            obs.append({'runner_error': traceback.format_exc()[-1500:]})
    with open(out, 'w') as f:
        json.dump(obs, f, default=repr)


if __name__ == '__main__':
    main()
