"""pysym: automata over unrolled strings -- int() literal grammar, regular expressions
(the subset of `re` a validator would use), strip/lstrip/rstrip."""
import re
import z3
from .values import *
from .engine import Unsupported
from . import chartab as CT

try:
    import re._parser as sre_parse
    import re._constants as sre_c
except ImportError:          # pragma: no cover
    import sre_parse
    import sre_constants as sre_c


# ---------------------------------------------------------------------------
# deterministic automaton runner (fresh definitional state variable per position: linear formulas)

def run_dfa(it, s, start, trans, accept, tag):
    """trans(state_int, c) -> list of (z3 cond on c, next_state_int); missing = dead (-1).
    returns z3 Bool: the whole string s is accepted"""
    eng = it.eng
    key = ('dfa', tag, s.name, s.L)
    if s.name and key in eng.path_local:
        return eng.path_local[key]
    states = sorted({start} | set(accept) | set(trans.keys()))
    st = z3.IntVal(start)
    cons = []
    pre = f'dfa!{tag}!{s.name}!' if s.name else None
    for i, c in enumerate(s.chars):
        nxt = z3.IntVal(-1)
        for q in states:
            for cond, q2 in reversed(trans.get(q, lambda c: [])(c)):
                nxt = z3.If(z3.And(st == q, cond), z3.IntVal(q2), nxt)
        v = z3.Int(f'{pre}{i}') if pre else eng.fresh('dfa', z3.IntSort())
        cons.append(v == z3.If(i < s.n, nxt, st))
        st = v
    if pre:
        eng.domain(key, z3.And(cons) if cons else z3.BoolVal(True))
    else:
        eng.add(*cons)
    r = zor([st == q for q in accept])
    if s.name:
        eng.path_local[key] = r
    return r


def int_literal_ok(it, s, base):
    """int(s, base) accepts the text (Python 3 grammar: surrounding whitespace, sign, optional
    base prefix, digits incl. Unicode decimal digits, single underscores between digits)"""
    if base not in (10, 16, 8, 2, 0):
        raise Unsupported(f'int(text, {base})')
    if base == 0:
        raise Unsupported('int(text, 0)')
    ws = lambda c: CT.cp('space', c)

    def digit(c):
        if base == 16:
            return z3.Or(CT.cp('decimal', c), z3.And(c >= 97, c <= 102), z3.And(c >= 65, c <= 70))
        if base == 10:
            return CT.cp('decimal', c)
        # base 8 / 2: decimal digits with value < base
        return CT.cp('dlt8' if base == 8 else 'dlt2', c)

    def zero(c):
        return CT.cp('dzero', c)
    pfx = {16: (120, 88), 8: (111, 79), 2: (98, 66)}.get(base)
    # states: 0 leading ws, 1 after sign, 2 after a leading zero digit (prefix possible), 3 after prefix,
    #         4 in digits, 5 after underscore, 6 trailing ws
    # (Python first maps every Unicode decimal digit to its ASCII digit, so a prefix may start with any script's zero)
    T = {
        0: lambda c: [(ws(c), 0), (z3.Or(c == 43, c == 45), 1)] + ([(zero(c), 2)] if pfx else []) + [(digit(c), 4)],
        1: lambda c: ([(zero(c), 2)] if pfx else []) + [(digit(c), 4)],
        2: lambda c: ([(z3.Or(c == pfx[0], c == pfx[1]), 3)] if pfx else []) + [(digit(c), 4), (c == 95, 5), (ws(c), 6)],
        3: lambda c: [(digit(c), 4), (c == 95, 5)],
        4: lambda c: [(digit(c), 4), (c == 95, 5), (ws(c), 6)],
        5: lambda c: [(digit(c), 4)],
        6: lambda c: [(ws(c), 6)],
    }
    return run_dfa(it, s, 0, T, [2, 4, 6], f'int{base}')


# ---------------------------------------------------------------------------
# strip family (exact): result characters are the source shifted by the number of stripped characters

def str_transform(it, fr, s, attr, args, kw):
    eng = it.eng
    if attr in ('strip', 'lstrip', 'rstrip') and (not args or args[0] is None):
        ws = lambda c: CT.cp('space', c)
        L = s.L
        # deterministic names: formulas over the result are memoised by its name, so every variable they mention must
        # be determined by that name (fresh counters differ between paths)
        lead = z3.Int(f'{attr}_lead({s.name})') if s.name else eng.fresh('lead', z3.IntSort())
        trail = z3.Int(f'{attr}_trail({s.name})') if s.name else eng.fresh('trail', z3.IntSort())
        cons = [lead >= 0, trail >= 0, lead + trail <= s.n]
        if attr in ('strip', 'lstrip'):
            for i, c in enumerate(s.chars):
                cons.append(z3.Implies(i < lead, ws(c)))
                cons.append(z3.Implies(z3.And(i == lead, i < s.n), z3.Not(ws(c))))
        else:
            cons.append(lead == 0)
        if attr in ('strip', 'rstrip'):
            for i, c in enumerate(s.chars):
                # i is among the trailing `trail` characters
                cons.append(z3.Implies(z3.And(i < s.n, i >= s.n - trail), ws(c)))
                cons.append(z3.Implies(z3.And(i == s.n - trail - 1, i >= lead), z3.Not(ws(c))))
            # all-whitespace string: lead = n, trail = 0
            cons.append(z3.Implies(lead == s.n, trail == 0))
        else:
            cons.append(trail == 0)
        n2 = z3.Int(f'{attr}_n({s.name})') if s.name else eng.fresh('strip_n', z3.IntSort())
        cons.append(n2 == s.n - lead - trail)
        eng.add(*cons)
        # stripping on the right only shortens the string; for a small concrete number of leading characters the result
        # is a slice of the source's characters (no equations); only longer leading runs need the general shift encoding
        for k in range(3):
            if k <= L and eng.fork(lead == k):
                return SStr(n2, s.chars[k:], f'{attr}{k}({s.name})' if s.name else '')
        cons = []
        chars = [eng.fresh('strip_c', z3.IntSort()) for _ in range(L)]
        for k in range(3, L):
            for j in range(L - k):
                cons.append(z3.Implies(z3.And(lead == k, j < n2), CT.char_eq(chars[j], s.chars[j + k])))
        for c in chars:
            cons.append(CT.char_domain(c))
        eng.add(*cons)
        return SStr(n2, chars, '')
    if attr == 'replace' and len(args) == 2 and isinstance(args[0], str) and len(args[0]) == 1 and isinstance(args[1], str) and len(args[1]) <= 1:
        old = ord(args[0])
        if args[1] == '':
            return filter_chars(it, s, lambda c: z3.Not(CT.char_is(c, old)))
        new = ord(args[1])
        chars = [eng.fresh('repl_c', z3.IntSort()) for _ in range(s.L)]
        cons = []
        for c, d in zip(s.chars, chars):
            cons.append(z3.If(CT.char_is(c, old), CT.char_is(d, new), CT.char_eq(d, c)))
            cons.append(CT.char_domain(d))
        eng.add(*cons)
        return SStr(s.n, chars, '')
    if attr == 'split' and not args and not kw:
        return SplitWS(s)
    raise Unsupported('str.' + attr + ' on a symbolic string')


class SplitWS(Sym):
    """result of s.split() (whitespace split) of a symbolic string; only "".join(...) of it is modelled"""
    pytype = list

    def __init__(s, src):
        s.src = src


def filter_chars(it, s, keep):
    """the string of the characters of s that satisfy keep, in order (exact compaction)"""
    eng = it.eng
    L = s.L
    pos = z3.IntVal(0)
    chars = [eng.fresh('flt_c', z3.IntSort()) for _ in range(L)]
    cons = [CT.char_domain(c) for c in chars]
    for i, c in enumerate(s.chars):
        k = z3.And(i < s.n, keep(c))
        for j in range(i + 1):
            cons.append(z3.Implies(z3.And(k, pos == j), CT.char_eq(chars[j], c)))
        p2 = eng.fresh('flt_p', z3.IntSort())
        cons.append(p2 == z3.If(k, pos + 1, pos))
        pos = p2
    eng.add(*cons)
    return SStr(pos, chars, '')


# ---------------------------------------------------------------------------
# regular expressions

class _NFA:
    def __init__(self):
        self.eps = {}      # state -> [(target, anchor|None)]
        self.chr = {}      # state -> (pred(c)->z3 Bool, target)
        self.n = 0

    def new(self):
        self.n += 1
        self.eps[self.n] = []
        return self.n


def _cat_pred(cat, ascii_only):
    C = sre_c
    neg = False
    name = str(cat)
    base = {str(C.CATEGORY_DIGIT): 'digit', str(C.CATEGORY_NOT_DIGIT): 'digit',
            str(C.CATEGORY_SPACE): 'space', str(C.CATEGORY_NOT_SPACE): 'space',
            str(C.CATEGORY_WORD): 'word', str(C.CATEGORY_NOT_WORD): 'word'}.get(name)
    if base is None:
        raise Unsupported('regex category ' + name)
    neg = 'NOT' in name

    def p(c):
        if ascii_only:
            if base == 'digit':
                r = z3.And(c >= 48, c <= 57)
            elif base == 'space':
                r = z3.Or(c == 32, z3.And(c >= 9, c <= 13))
            else:
                r = z3.Or(z3.And(c >= 48, c <= 57), z3.And(c >= 65, c <= 90), z3.And(c >= 97, c <= 122), c == 95)
        else:
            r = CT.cp({'digit': 'decimal', 'space': 'space', 'word': 'word'}[base], c)
        return z3.Not(r) if neg else r
    return p


def _in_pred(items, ascii_only):
    C = sre_c
    neg = False
    preds = []
    for op, av in items:
        if op is C.NEGATE:
            neg = True
        elif op is C.LITERAL:
            preds.append(lambda c, av=av: CT.char_is(c, av))
        elif op is C.RANGE:
            preds.append(CT.range_pred(av[0], av[1]))
        elif op is C.CATEGORY:
            preds.append(_cat_pred(av, ascii_only))
        else:
            raise Unsupported('regex set item ' + str(op))

    def p(c):
        r = zor([q(c) for q in preds])
        return z3.Not(r) if neg else r
    return p


def _build(nfa, items, start, flags):
    """Thompson construction; returns the end state"""
    C = sre_c
    ascii_only = bool(flags & re.ASCII)
    cur = start
    for op, av in items:
        if op is C.LITERAL:
            nxt = nfa.new()
            nfa.chr[cur] = ((lambda c, av=av: CT.char_is(c, av)), nxt)
            cur = nxt
        elif op is C.NOT_LITERAL:
            nxt = nfa.new()
            nfa.chr[cur] = ((lambda c, av=av: c != av), nxt)
            cur = nxt
        elif op is C.ANY:
            nxt = nfa.new()
            nfa.chr[cur] = ((lambda c: z3.BoolVal(True)) if flags & re.DOTALL else (lambda c: c != 10), nxt)
            cur = nxt
        elif op is C.IN:
            nxt = nfa.new()
            nfa.chr[cur] = (_in_pred(av, ascii_only), nxt)
            cur = nxt
        elif op is C.CATEGORY:
            nxt = nfa.new()
            nfa.chr[cur] = (_cat_pred(av, ascii_only), nxt)
            cur = nxt
        elif op in (C.MAX_REPEAT, C.MIN_REPEAT) or str(op) == 'POSSESSIVE_REPEAT':
            lo, hi, sub = av
            for _ in range(lo):
                s2 = nfa.new()
                nfa.eps[cur].append((s2, None))
                cur = _build(nfa, sub, s2, flags)
                s3 = nfa.new()
                nfa.eps[cur].append((s3, None))
                cur = s3
            if hi is C.MAXREPEAT or hi >= 1 << 30:
                loop = nfa.new()
                nfa.eps[cur].append((loop, None))
                body = nfa.new()
                nfa.eps[loop].append((body, None))
                end = _build(nfa, sub, body, flags)
                nfa.eps[end].append((loop, None))
                out = nfa.new()
                nfa.eps[loop].append((out, None))
                cur = out
            else:
                if hi - lo > 200:
                    raise Unsupported('regex repeat bound too large')
                out = nfa.new()
                for _ in range(hi - lo):
                    nfa.eps[cur].append((out, None))
                    s2 = nfa.new()
                    nfa.eps[cur].append((s2, None))
                    cur = _build(nfa, sub, s2, flags)
                    s3 = nfa.new()
                    nfa.eps[cur].append((s3, None))
                    cur = s3
                nfa.eps[cur].append((out, None))
                cur = out
        elif op is C.SUBPATTERN:
            group, add, dele, sub = av
            s2 = nfa.new()
            nfa.eps[cur].append((s2, None))
            cur = _build(nfa, sub, s2, (flags | add) & ~dele)
        elif op is C.BRANCH:
            out = nfa.new()
            for sub in av[1]:
                s2 = nfa.new()
                nfa.eps[cur].append((s2, None))
                e = _build(nfa, sub, s2, flags)
                nfa.eps[e].append((out, None))
            cur = out
        elif op is C.AT:
            nxt = nfa.new()
            nfa.eps[cur].append((nxt, str(av)))
            cur = nxt
        else:
            raise Unsupported('regex construct ' + str(op))
        if cur not in nfa.eps:
            nfa.eps[cur] = []
    return cur


_NFA_CACHE = {}


def _compile(pattern, flags):
    key = (pattern, flags)
    if key not in _NFA_CACHE:
        if not isinstance(pattern, str):
            raise Unsupported('bytes regex')
        if flags & (re.IGNORECASE | re.MULTILINE | re.VERBOSE | re.LOCALE) & ~0:
            if flags & (re.IGNORECASE | re.MULTILINE | re.LOCALE):
                raise Unsupported('regex flags IGNORECASE/MULTILINE/LOCALE')
        tree = sre_parse.parse(pattern, flags)
        fl = tree.state.flags if hasattr(tree, 'state') else flags
        if fl & (re.IGNORECASE | re.MULTILINE | re.LOCALE):
            raise Unsupported('regex flags IGNORECASE/MULTILINE/LOCALE')
        nfa = _NFA()
        start = nfa.new()
        end = _build(nfa, list(tree), start, fl)
        # epsilon closures with the anchors met on the way
        clos = {}
        for q in range(1, nfa.n + 1):
            out = []
            seen = set()
            stack = [(q, ())]
            while stack:
                st, anc = stack.pop()
                if (st, anc) in seen:
                    continue
                seen.add((st, anc))
                if st in nfa.chr or st == end:
                    out.append((st, anc))
                for t, a in nfa.eps.get(st, []):
                    stack.append((t, anc + ((a,) if a else ())))
            clos[q] = out
        _NFA_CACHE[key] = (nfa, start, end, clos)
    return _NFA_CACHE[key]


def _anchor(a, i, s):
    n = s.n
    if a in ('AT_BEGINNING', 'AT_BEGINNING_STRING'):
        return z3.BoolVal(i == 0)
    if a == 'AT_END_STRING':
        return n == i
    if a == 'AT_END':
        last_nl = z3.And(n == i + 1, s.chars[i] == 10) if i < s.L else z3.BoolVal(False)
        return z3.Or(n == i, last_nl)
    raise Unsupported('regex anchor ' + a)


def regex_match(it, pattern, flags, s, how):
    """z3 Bool: re.<how>(pattern, s) is not None, how in match/fullmatch/search.
    One definitional Bool per (position, NFA state) keeps the formula linear."""
    eng = it.eng
    key = ('re', pattern, flags, how, s.name, s.L)
    if s.name and key in eng.path_local:
        return eng.path_local[key]
    nfa, start, end, clos = _compile(pattern, flags)
    L = s.L
    import hashlib
    tagp = hashlib.sha1(repr((pattern, flags, how)).encode()).hexdigest()[:8]
    defs = []

    def define(i, t, e):
        if z3.is_true(e) or z3.is_false(e) or z3.is_const(e):
            return e
        v = z3.Bool(f're!{tagp}!{s.name}!{i}!{t}') if s.name else eng.fresh('re', z3.BoolSort())
        defs.append(v == e)
        return v

    def close(active, i):
        out = {}
        for q, b in active.items():
            for t, anc in clos[q]:
                cond = zand([b] + [_anchor(a, i, s) for a in anc])
                if z3.is_false(cond):
                    continue
                out.setdefault(t, []).append(cond)
        return {t: define(i, t, zor(v)) for t, v in out.items()}
    results = []
    cur = {}
    for i in range(L + 1):
        seeds = dict(cur)
        if i == 0 or how == 'search':
            seeds[start] = zor([seeds.get(start, z3.BoolVal(False)), i <= s.n])
        act = close(seeds, i)
        if end in act:
            acc = act[end]
            if how == 'fullmatch':
                results.append(z3.And(s.n == i, acc))
            else:
                results.append(z3.And(i <= s.n, acc))
        nxt = {}
        if i < L:
            c = s.chars[i]
            for q, b in act.items():
                if q in nfa.chr:
                    pred, t = nfa.chr[q]
                    cond = zand([b, i < s.n, pred(c)])
                    if not z3.is_false(cond):
                        nxt.setdefault(t, []).append(cond)
        cur = {t: zor(v) for t, v in nxt.items()}
    r = zor(results)
    if s.name:
        eng.domain(key, z3.And(defs) if defs else z3.BoolVal(True))
        eng.path_local[key] = r
    elif defs:
        eng.add(*defs)
    return r


from .values import _MEMO
