"""entry point of ./check"""
import argparse
import importlib
import os
import sys
import time

HERE = os.path.dirname(os.path.dirname(os.path.abspath(__file__)))
sys.path.insert(0, HERE)
# development aid (mutant sweeps on scratch copies): analyse another tree than /repo.  The registered
# commands never set it, so they always analyse /repo's current working tree.
if os.environ.get('CCT_VERIF_REPO'):
    sys.path.insert(0, os.environ['CCT_VERIF_REPO'])
sys.setrecursionlimit(20000)


def main():
    if len(sys.argv) >= 2 and sys.argv[1] == 'replay':
        from pysym.framework import replay_file
        sys.exit(replay_file(sys.argv[2]))
    ap = argparse.ArgumentParser()
    ap.add_argument('prop')
    ap.add_argument('--tier', default=os.environ.get('VERIF_TIER', 'quick'), choices=['quick', 'thorough'])
    ap.add_argument('--unit', action='append', help='run only these units (debugging; evidence is still written)')
    ap.add_argument('--nproc', type=int, default=None)
    a = ap.parse_args()
    seed = int(os.environ.get('VERIF_SEED', '0') or 0)
    from pysym import framework as F
    prop = a.prop.upper()
    module = importlib.import_module('harness.' + prop.lower())
    if hasattr(module, 'main'):
        sys.exit(module.main(a.tier, seed, a))
    res = F.Result(prop, a.tier, seed)
    res.bounds = getattr(module, 'BOUNDS', {})
    res.outside = getattr(module, 'OUTSIDE', '')
    res.assumptions = list(getattr(module, 'ASSUMPTIONS', []))
    F.log(f'check {prop} tier={a.tier} seed={seed} repo={repo_head()}')
    try:
        if getattr(module, 'NEEDS_LEMMAS', True):
            from harness import lemmas
            lemmas.prove(res, names=getattr(module, 'LEMMAS', None), seed=seed, log=F.log)
        if hasattr(module, 'pre'):
            module.pre(res, a.tier)
        us = [u for u in module.units(a.tier) if not a.unit or u.name in a.unit]
        budget = getattr(module, 'BUDGET_S', {'quick': 900, 'thorough': 1800}).get(a.tier)
        if os.environ.get('CCT_VERIF_BUDGET_S'):
            budget = int(os.environ['CCT_VERIF_BUDGET_S'])          # shorter exploration budget (used to smoke-test the thorough tier)
        F.run_units(res, module, us, nproc=a.nproc, budget_s=budget)
        if hasattr(module, 'post'):
            module.post(res, a.tier)
    except Exception:
        import traceback
        res.errors.append(traceback.format_exc())
    rc = F.finish(res, module, level=getattr(module, 'LEVEL', 'model_checking'))
    sys.exit(rc)


def repo_head():
    import subprocess
    try:
        h = subprocess.run(['git', '-C', '/repo', 'rev-parse', '--short', 'HEAD'], capture_output=True, text=True).stdout.strip()
        d = subprocess.run(['git', '-C', '/repo', 'status', '--porcelain', '--', 'conda_content_trust'], capture_output=True, text=True).stdout.strip()
        return h + ('+dirty' if d else '')
    except Exception:
        return '?'


if __name__ == '__main__':
    main()
