"""tagged JSON encoding of Python values for replay files and cross-process witness validation"""
import datetime
import json
import math


class Exotic:
    """marker for object() instances"""


def to_wire(v):
    if v is None or isinstance(v, (bool, str)):
        return v
    if isinstance(v, int):
        return v if abs(v) < 2 ** 62 else {'$': 'int', 'v': str(v)}
    if isinstance(v, float):
        if math.isnan(v) or math.isinf(v) or (v == 0 and math.copysign(1, v) < 0):
            return {'$': 'float', 'v': repr(v)}
        return {'$': 'float', 'v': v.hex()}
    if isinstance(v, (bytes, bytearray)):
        return {'$': 'bytes', 'hex': bytes(v).hex()}
    if isinstance(v, list):
        return [to_wire(x) for x in v]
    if isinstance(v, tuple):
        return {'$': 'tuple', 'v': [to_wire(x) for x in v]}
    if isinstance(v, (set, frozenset)):
        return {'$': 'set' if isinstance(v, set) else 'frozenset', 'v': [to_wire(x) for x in v]}
    if isinstance(v, dict):
        return {'$': 'dict', 'items': [[to_wire(k), to_wire(x)] for k, x in v.items()]}
    if isinstance(v, complex):
        return {'$': 'complex', 're': v.real, 'im': v.imag}
    if isinstance(v, datetime.timedelta):
        return {'$': 'timedelta', 'us': (v.days * 86400 + v.seconds) * 1000000 + v.microseconds}
    if isinstance(v, KeyRef):
        return {'$': 'privkey' if v.private else 'pubkey', 'hex': v.hex}
    if type(v) is object or isinstance(v, Exotic):
        return {'$': 'object'}
    if isinstance(v, type):
        return {'$': 'type', 'name': v.__name__}
    try:
        from cryptography.hazmat.primitives.asymmetric import ed25519
        from cryptography.hazmat.primitives import serialization as S
        if isinstance(v, ed25519.Ed25519PublicKey):
            return {'$': 'pubkey', 'hex': v.public_bytes(S.Encoding.Raw, S.PublicFormat.Raw).hex()}
        if isinstance(v, ed25519.Ed25519PrivateKey):
            return {'$': 'privkey', 'hex': v.private_bytes(S.Encoding.Raw, S.PrivateFormat.Raw, S.NoEncryption()).hex()}
    except Exception:
        pass
    return {'$': 'repr', 'v': repr(v)}


class KeyRef:
    """a key object in a concretised witness (materialised by the replay side)"""

    def __init__(self, hex, private):
        self.hex = hex
        self.private = private

    def __repr__(self):
        return f'KeyRef({"priv" if self.private else "pub"}:{self.hex[:8]}..)'


def from_wire(w, mk_key=None):
    if w is None or isinstance(w, (bool, str, int)):
        return w
    if isinstance(w, float):
        return w
    if isinstance(w, list):
        return [from_wire(x, mk_key) for x in w]
    t = w['$']
    if t == 'int':
        return int(w['v'])
    if t == 'float':
        v = w['v']
        if v in ('nan', 'inf', '-inf', '-0.0'):
            return float(v)
        return float.fromhex(v)
    if t == 'bytes':
        return bytes.fromhex(w['hex'])
    if t == 'tuple':
        return tuple(from_wire(x, mk_key) for x in w['v'])
    if t == 'set':
        return set(from_wire(x, mk_key) for x in w['v'])
    if t == 'frozenset':
        return frozenset(from_wire(x, mk_key) for x in w['v'])
    if t == 'dict':
        return {from_wire(k, mk_key): from_wire(x, mk_key) for k, x in w['items']}
    if t == 'complex':
        return complex(w['re'], w['im'])
    if t == 'timedelta':
        return datetime.timedelta(microseconds=w['us'])
    if t == 'object':
        return object()
    if t == 'type':
        import builtins
        return getattr(builtins, w['name'], object)
    if t in ('pubkey', 'privkey'):
        if mk_key is None:
            return KeyRef(w['hex'], t == 'privkey')
        return mk_key(w['hex'], t == 'privkey')
    if t == 'repr':
        return w['v']
    raise ValueError('wire tag ' + t)


def dumps(v):
    return json.dumps(to_wire(v), ensure_ascii=True)


def loads(s, mk_key=None):
    return from_wire(json.loads(s), mk_key)
