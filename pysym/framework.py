"""pysym: check driver -- runs the units of a property check, validates path witnesses and
counterexamples against the real code, writes evidence, prints the verdict lines."""
import hashlib
import importlib
import json
import os
import random
import subprocess
import sys
import tempfile
import time
import z3

HERE = os.path.dirname(os.path.dirname(os.path.abspath(__file__)))
PY = sys.executable


def log(*a):
    print(*a, flush=True)


class Unit:
    """one symbolic harness: factory(eng) -> harness(eng) -> record dict (see run_unit)"""

    def __init__(self, name, factory, eager=True, nproc=None, chunk=40, budget_s=None, qtimeout_ms=60000, max_witnesses=200, note='', expect=()):
        self.name = name
        self.factory = factory
        self.eager = eager
        self.nproc = nproc
        self.chunk = chunk
        self.budget_s = budget_s
        self.qtimeout_ms = qtimeout_ms
        self.max_witnesses = max_witnesses
        self.note = note
        self.expect = tuple(expect)     # reachability witnesses this unit must produce (vacuity guard)


class Result:
    def __init__(self, prop, tier, seed):
        self.prop = prop
        self.tier = tier
        self.seed = seed
        self.t0 = time.time()
        self.paths = 0
        self.forks = 0
        self.obligations = 0
        self.discharged = 0
        self.inconclusive = []
        self.violations = []       # confirmed: dict(unit, obligation, case, obs, why, replay)
        self.known = []
        self.mismatches = []
        self.errors = []
        self.validated = 0
        self.samples = []
        self.queries = {}
        self.solver_time = 0.0
        self.units = []
        self.bounds = {}
        self.stubs = set()
        self.functions = {}
        self.lemmas = []
        self.assumptions = []
        self.outside = ''
        self.extra = {}
        self.outcomes = {}
        self.reach = {}            # reachability twins: name -> bool (must all be True)


def combined_factory(units):
    """one exploration for several units: the first decisions of a path select the unit, so that all
    paths of all units share one worker pool"""
    def factory(eng):
        hs = [u.factory(eng) for u in units]
        sel = z3.Int('unit!sel')
        eng.declare(lambda e: e.domain('unit!sel', z3.And(sel >= 0, sel < len(units))))

        def harness(eng):
            idx = len(units) - 1
            eng.eager = True
            for i in range(len(units) - 1):
                if eng.fork(sel == i):
                    idx = i
                    break
            u = units[idx]
            eng.eager = u.eager
            eng.solver.set('timeout', u.qtimeout_ms)
            try:
                rec = hs[idx](eng)
            except Exception as ex:
                from .engine import Unsupported, Infeasible
                if isinstance(ex, Unsupported):
                    ex.args = (f'[{u.name}] ' + (str(ex.args[0]) if ex.args else ''),)
                raise
            if rec is not None:
                rec['unit'] = u.name
            return rec
        return harness
    return factory


def unit_seeds(units, seed=0):
    """decision prefixes that start the exploration: the selector prefix of each eager unit, and -- for lazy
    units, whose path enumeration needs no solver -- every complete syntactic path"""
    from . import engine
    n = len(units)
    sel = [[False] * i + ([True] if i < n - 1 else []) for i in range(n)]
    out = []
    lazy = [i for i, u in enumerate(units) if not u.eager]
    if lazy:
        eng = engine.Engine(seed=seed, eager=True)
        h = combined_factory(units)(eng)
        out.extend(engine.enumerate_paths(eng, h, [sel[i] for i in lazy]))
    out.extend(sel[i] for i, u in enumerate(units) if u.eager)
    return out


def run_units(res, module, units, budget_s=None, nproc=None, chunk=8):
    """explore all units in one pool; aggregate obligations; validate witnesses; replay counterexamples"""
    from . import engine
    if not units:
        return []
    t0 = time.time()
    seeds = unit_seeds(units, res.seed)
    log(f'{len(seeds)} seed prefixes for {len(units)} units ({time.time() - t0:.0f}s)')
    r = engine.explore(combined_factory(units), seed=res.seed, qtimeout_ms=max(u.qtimeout_ms for u in units), eager=True,
                       nproc=nproc, chunk=chunk, budget_s=budget_s, log=log, seeds=seeds)
    recs = r['records']
    st = r['stats']
    res.solver_time += st['tsolve']
    for k, v in st['queries'].items():
        res.queries[k] = res.queries.get(k, 0) + v
    for e in r['errors']:
        res.errors.append(e)
    if r['leftover']:
        res.inconclusive.append(dict(unit='*', reason=f'time budget reached with {len(r["leftover"])} unexplored decision prefixes'))
    byunit = {u.name: dict(unit=u, recs=[], witnesses=[], cexs=[], paths=0) for u in units}
    for u in units:
        for name in u.expect:
            res.reach.setdefault(f'{u.name}:{name}', False)
    for rec in recs:
        if 'inconclusive' in rec and 'outcome' not in rec:
            why = rec['inconclusive']
            m = why.startswith('[') and why[1:why.index(']')]
            res.inconclusive.append(dict(unit=m or '?', reason=why))
            continue
        g = byunit[rec['unit']]
        g['paths'] += 1
        uname = rec['unit']
        res.forks += len(rec.get('trace', ()))
        oc = rec.get('outcome_key')
        if oc:
            res.outcomes[f'{uname}:{oc}'] = res.outcomes.get(f'{uname}:{oc}', 0) + 1
        for name in rec.get('reach', ()):
            res.reach[f'{uname}:{name}'] = True
        for ob in rec.get('obligations', ()):
            res.obligations += 1
            if ob['status'] == 'unsat':
                res.discharged += 1
            elif ob['status'] == 'unknown':
                res.inconclusive.append(dict(unit=uname, reason=f'solver unknown on obligation {ob["name"]}'))
            elif ob['status'] == 'sat':
                if (ob.get('cex') or {}).get('scenario') == 'lemma':
                    res.obligations -= 1        # an auxiliary lemma that fails is simply not used (the code is inlined)
                    continue
                g['cexs'].append((ob, rec))
        if rec.get('witness') is not None:
            g['witnesses'].append(rec['witness'])
        for k, v in rec.get('funcs', {}).items():
            res.functions[k] = v
        res.stubs.update(rec.get('stubs', ()))
    rnd = random.Random(res.seed)
    for name, g in byunit.items():
        unit = g['unit']
        res.paths += g['paths']
        witnesses, cexs = g['witnesses'], g['cexs']
        udesc = dict(name=name, paths=g['paths'], note=unit.note)
        res.units.append(udesc)
        # ---- witness validation against the real code (translator validation)
        if len(witnesses) > unit.max_witnesses:
            witnesses = rnd.sample(witnesses, unit.max_witnesses)
        if witnesses:
            obs = replay_cases(module.__name__, witnesses)
            for case, ob in zip(witnesses, obs):
                if module.agrees(case, ob):
                    res.validated += 1
                else:
                    res.mismatches.append(dict(unit=name, case=case, observed=ob))
            for case, ob in list(zip(witnesses, obs))[:1]:
                if len(res.samples) < 16:
                    res.samples.append(dict(unit=name, inputs=_short(case), observed=_short(ob)))
        # ---- counterexamples: replay before reporting (one representative per fingerprint)
        seen = {}
        for ob, rec in cexs:
            fp = (ob['name'], rec.get('outcome_key'))
            seen.setdefault(fp, []).append((ob, rec))
        reps = [v[0] for v in seen.values()]
        if reps:
            obs = replay_cases(module.__name__, [ob['cex'] for ob, rec in reps])
            for (ob, rec), o in zip(reps, obs):
                case = ob['cex']
                why = module.judge(case, o) if 'runner_error' not in o else None
                fp = (ob['name'], rec.get('outcome_key'))
                if why:
                    res.violations.append(dict(unit=name, obligation=ob['name'], case=case, observed=o, why=why,
                                               outcome=rec.get('outcome_key'), count=len(seen[fp])))
                else:
                    res.mismatches.append(dict(unit=name, obligation=ob['name'], case=case, observed=o,
                                               note='solver counterexample did not reproduce on the real code'))
        udesc['witnesses_validated'] = len(witnesses)
        udesc['counterexample_paths'] = len(cexs)
        log(f'unit {name}: {g["paths"]} paths, {len(cexs)} violating, {len(witnesses)} witnesses replayed')
    log(f'explored {len(recs)} paths of {len(units)} units in {time.time() - t0:.0f}s (solver {st["tsolve"]:.0f}s cpu, '
        f'{sum(st["queries"].values())} queries)')
    return recs


def _short(x, n=600):
    s = json.dumps(x, ensure_ascii=True, default=repr)
    if len(s) <= n:
        return x
    return s[:n] + '...'


def replay_cases(module_name, cases, timeout=600):
    """run cases on the real code in a fresh process; returns the list of observations"""
    if not cases:
        return []
    d = tempfile.mkdtemp(prefix='cct-verif-replay-', dir='/var/tmp')
    try:
        inp = os.path.join(d, 'in.json')
        out = os.path.join(d, 'out.json')
        with open(inp, 'w') as f:
            json.dump(cases, f)
        env = dict(os.environ)
        env['PYTHONPATH'] = os.pathsep.join(x for x in (os.environ.get('CCT_VERIF_REPO'), HERE, env.get('PYTHONPATH', '')) if x)
        env.pop('PYTHONIOENCODING', None)
        p = subprocess.run([PY, '-m', 'pysym.replay_runner', module_name, inp, out], cwd=HERE, env=env,
                           capture_output=True, text=True, timeout=timeout)
        if p.returncode != 0 or not os.path.exists(out):
            raise RuntimeError(f'replay runner failed ({p.returncode}): {p.stderr[-2000:]}')
        with open(out) as f:
            return json.load(f)
    finally:
        import shutil
        shutil.rmtree(d, ignore_errors=True)


# ---------------------------------------------------------------------------
# known findings

def load_known():
    p = os.path.join(HERE, 'known_findings.json')
    if not os.path.exists(p):
        return []
    with open(p) as f:
        return json.load(f).get('entries', [])


def match_known(prop, v, entries):
    for e in entries:
        if e.get('status') != 'known' or e.get('property') != prop:
            continue
        m = e.get('match', {})
        fp = dict(unit=v['unit'], obligation=v['obligation'], outcome=v.get('outcome'))
        if all(fp.get(k) == val for k, val in m.items()):
            return e
    return None


# ---------------------------------------------------------------------------
# finishing: evidence, verdict lines, exit status

def finish(res, module, level='model_checking', exhaustive_ok=True):
    OUT = os.environ.get('CCT_VERIF_OUT') or HERE       # sweeps on scratch copies write elsewhere
    os.makedirs(os.path.join(OUT, 'evidence'), exist_ok=True)
    os.makedirs(os.path.join(OUT, 'replays'), exist_ok=True)
    known = load_known()
    new_violations = []
    for v in res.violations:
        e = match_known(res.prop, v, known)
        if e is not None:
            res.known.append((e, v))
            log(f'KNOWN-FINDING: property={res.prop} {e.get("what", "")}')
            continue
        body = dict(property=res.prop, harness=module.__name__, unit=v['unit'], obligation=v['obligation'],
                    case=v['case'], expected='property ' + res.prop + ' (see why)', observed=v['observed'], why=v['why'])
        h = hashlib.sha256(json.dumps(body, sort_keys=True, default=repr).encode()).hexdigest()[:8]
        path = os.path.join('replays', f'{res.prop}-{h}.json')
        with open(os.path.join(OUT, path), 'w') as f:
            json.dump(body, f, indent=1, default=repr)
        v['replay'] = path
        new_violations.append(v)
    wall = time.time() - res.t0
    missing_reach = [k for k, ok in res.reach.items() if not ok]
    exhaustive = (not res.inconclusive and not res.errors and not res.mismatches and exhaustive_ok)
    cov = dict(
        states=max(res.paths, 0), transitions=max(res.forks, 0),
        traces_validated_against_impl=res.validated,
        samples=res.samples[:12] or [dict(note='no witness was produced on this run')],
        obligations=res.obligations, discharged=res.discharged,
        exhaustive=bool(exhaustive),
        explanation=('states = feasible paths of the symbolic execution of the real functions whose property query was '
                     'discharged; transitions = branch decisions on those paths; obligations/discharged = property '
                     'queries posed / answered unsat by z3 within the bounds below'),
        functions_encoded=sorted(res.functions.values(), key=lambda d: d['qualname']),
        bounds=res.bounds, stubs=sorted(res.stubs), lemmas=res.lemmas,
        queries=res.queries, solver_time_s=round(res.solver_time, 2),
        solver_versions=dict(z3=z3.get_version_string()),
        inconclusive=res.inconclusive[:50], inconclusive_count=len(res.inconclusive),
        engine_mismatches=len(res.mismatches), units=res.units, outcome_classes=res.outcomes,
        reachability_witnesses=res.reach, outside_claim=res.outside,
        known_findings=[e.get('id') or e.get('what') for e, v in res.known],
        violations_detail=[dict(unit=v['unit'], obligation=v['obligation'], why=v['why'], replay=v.get('replay')) for v in new_violations],
    )
    cov.setdefault('evaluations', max(res.paths, 0))
    cov.setdefault('distinct_nontrivial', max(res.paths, 0))
    cov.setdefault('rule', 'one evaluation = one feasible symbolic path of the real code (distinct path condition) whose property query was discharged')
    cov.update(res.extra)
    ev = dict(property_id=res.prop, tier=res.tier, seed=res.seed, level=level, coverage=cov,
              assumptions=res.assumptions, wall_s=round(wall, 2), violations=len(new_violations))
    if cov['states'] < 1 or cov['transitions'] < 1:
        # schema for model_checking demands >= 1; an empty run is a harness error, reported below
        cov['states'] = max(cov['states'], 0)
    with open(os.path.join(OUT, 'evidence', f'{res.prop}.json'), 'w') as f:
        json.dump(ev, f, indent=1, default=repr)
    for i in res.inconclusive[:20]:
        log(f'INCONCLUSIVE property={res.prop} {i.get("unit")} {i.get("reason")}')
    if len(res.inconclusive) > 20:
        log(f'INCONCLUSIVE property={res.prop} ... {len(res.inconclusive) - 20} more')
    log(f'SUMMARY property={res.prop} tier={res.tier} paths={res.paths} obligations={res.obligations} '
        f'discharged={res.discharged} inconclusive={len(res.inconclusive)} witnesses_validated={res.validated} '
        f'violations={len(new_violations)} known={len(res.known)} mismatches={len(res.mismatches)} wall={wall:.0f}s')
    if res.errors:
        for e in res.errors[:5]:
            log('HARNESS-ERROR', e[-1500:])
        return 2
    if res.mismatches:
        try:
            with open(f'/var/tmp/cct-verif-mismatch-{res.prop}.json', 'w') as f:
                json.dump(res.mismatches[:50], f, indent=1, default=repr)
        except Exception:
            pass
        for mm in res.mismatches[:5]:
            log('ENGINE-MISMATCH', json.dumps(mm, default=repr)[:1500])
        if not new_violations:
            return 2
    for v in new_violations:
        log(f'VIOLATION property={res.prop} replay={v["replay"]}')
        log(f'  why: {v["why"]}  (unit {v["unit"]}, obligation {v["obligation"]}, {v.get("count", 1)} violating path(s))')
    if new_violations:
        return 1
    budget_hit = any('time budget reached' in str(i.get('reason')) for i in res.inconclusive)
    if missing_reach and not budget_hit:
        log('HARNESS-ERROR reachability witnesses missing (vacuous harness?):', missing_reach)
        return 2
    if missing_reach:
        log('NOTE reachability witnesses not seen before the time budget was reached:', missing_reach)
    if res.paths == 0:
        log('HARNESS-ERROR no path explored')
        return 2
    return 0


def replay_file(path):
    """./check replay <file>: rerun a stored counterexample on the current /repo; exit 1 if it reproduces"""
    with open(path) as f:
        body = json.load(f)
    module = importlib.import_module(body['harness'])
    obs = replay_cases(body['harness'], [body['case']])[0]
    why = module.judge(body['case'], obs)
    print(json.dumps(dict(observed=obs, verdict=why or 'property holds on this input'), indent=1, default=repr))
    if why:
        print(f'VIOLATION property={body["property"]} replay={path}')
        return 1
    return 0
