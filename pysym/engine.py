"""pysym: path engine (DART-style re-execution, z3 incremental solver, Ackermannised UFs)
and the sequential / multi-process exploration drivers."""
import os
import time
import traceback
import z3
from .values import *


class Infeasible(Exception):
    pass


class Unsupported(Exception):
    """the interpreter or a model cannot decide something: the path is inconclusive"""


class EnumDone(Exception):
    """enumeration-only mode: the syntactic path is complete, no solver work wanted"""


class Engine:
    def __init__(self, seed=0, qtimeout_ms=60000, eager=True):
        self.seed = seed
        self.qtimeout = qtimeout_ms
        self.eager = self.default_eager = eager
        self.solver = z3.Solver()
        self.solver.set('timeout', qtimeout_ms)
        self.solver.set('random_seed', seed)
        self.base_keys = set()
        self.depth = 0
        self.nchecks = 0
        self.tsolve = 0.0
        self.nforks = 0
        self.nconcretise = 0
        self.enum_only = False
        self.queries = {'feasibility': 0, 'property': 0}
        self._begin([])

    # ---- path life cycle
    def _begin(self, prefix):
        while self.depth > 0:
            self.solver.pop()
            self.depth -= 1
        self.solver.push()
        self.depth = 1
        self.eager = self.default_eager
        self.prefix = list(prefix)
        self.pos = 0
        self.trace = []
        self.alts = []
        self.last_model = None
        self.uf_calls = {}
        self.fresh_id = 0
        self.any_choice = {}
        self.events = []          # harness-visible events (writes, prints, mutation of arguments, ...)
        self.path_local = {}      # scratch for stubs (file system, clock, ...)

    def domain(self, key, formula):
        """template domain constraint; asserted once at base level when possible"""
        if key in self.base_keys:
            return
        self.solver.add(formula)
        self.last_model = None          # a cached model knows nothing about constraints added after it was computed
        if self.depth == 0:
            self.base_keys.add(key)

    def declare(self, build):
        """run a template builder once at base level so that its domain constraints persist"""
        while self.depth > 0:
            self.solver.pop()
            self.depth -= 1
        try:
            build(self)
        finally:
            self._begin([])

    def fresh(self, prefix, sort):
        self.fresh_id += 1
        return z3.Const(f'{prefix}!{self.fresh_id}', sort)

    def add(self, *c):
        self.solver.add(*c)
        self.last_model = None

    def check(self, *extra, kind='feasibility'):
        t = time.time()
        r = self.solver.check(*extra)
        self.tsolve += time.time() - t
        self.nchecks += 1
        self.queries[kind] = self.queries.get(kind, 0) + 1
        if r == z3.sat:
            if not extra:
                self.last_model = self.solver.model()
        return r

    def model(self):
        return self.solver.model()

    def feasible(self, cond):
        if self.last_model is not None:
            try:
                if z3.is_true(self.last_model.eval(cond, model_completion=True)):
                    return True
            except Exception:
                pass
        r = self.check(cond)
        if r == z3.unknown:
            raise Unsupported('solver unknown at fork: ' + self.solver.reason_unknown())
        if r == z3.sat:
            try:
                self.last_model = self.solver.model()
            except Exception:
                self.last_model = None
        return r == z3.sat

    def fork(self, cond):
        """decide a branch on z3 Bool `cond`; returns the python bool taken on this path"""
        if isinstance(cond, bool):
            return cond
        cond = z3.simplify(cond) if not (z3.is_true(cond) or z3.is_false(cond)) else cond
        if z3.is_true(cond):
            return True
        if z3.is_false(cond):
            return False
        if self.pos < len(self.prefix):
            c = self.prefix[self.pos]
        elif not self.eager:
            self.alts.append(self.trace + [False])
            c = True
        else:
            ft = self.feasible(cond)
            ff = self.feasible(z3.Not(cond))
            if ft and ff:
                self.alts.append(self.trace + [False])
                c = True
            elif ft:
                c = True
            elif ff:
                c = False
            else:
                raise Infeasible()
        self.trace.append(c)
        self.pos += 1
        self.nforks += 1
        lm = self.last_model
        taken = cond if c else z3.Not(cond)
        self.solver.add(taken)
        if lm is not None:
            try:
                if not z3.is_true(lm.eval(taken, model_completion=True)):
                    self.last_model = None
            except Exception:
                self.last_model = None
        return c

    def fork_free(self, cond):
        """a decision on a variable that nothing else constrains (e.g. the fault point): both sides are feasible by
        construction, so no solver call is needed"""
        if self.pos < len(self.prefix):
            c = self.prefix[self.pos]
        else:
            self.alts.append(self.trace + [True])
            c = False
        self.trace.append(c)
        self.pos += 1
        self.nforks += 1
        self.solver.add(cond if c else z3.Not(cond))
        self.last_model = None
        return c

    def uf(self, name, args, eqfn, sort=None):
        """Ackermannised uninterpreted function application; args compared with eqfn(a,b)->z3 Bool"""
        calls = self.uf_calls.setdefault(name, [])
        for a, v in calls:
            if len(a) == len(args) and all(x is y for x, y in zip(a, args)):
                return v
        v = self.fresh(name, z3.BoolSort() if sort is None else sort)
        for a, v2 in calls:
            if len(a) != len(args):
                continue
            same = zand([eqfn(x, y) for x, y in zip(a, args)])
            if not z3.is_false(same):
                self.solver.add(z3.Implies(same, v == v2))
        calls.append((tuple(args), v))
        self.last_model = None
        return v

    def event(self, kind, **kw):
        self.events.append(dict(kind=kind, **kw))

    # ---- property obligations on the current path
    def violated(self, bad):
        """is PC & bad satisfiable?  returns ('unsat'|'sat'|'unknown', model|None)"""
        bad = zb(bad)
        if z3.is_false(bad):
            return 'unsat', None
        self.solver.push()
        try:
            self.solver.add(bad)
            r = self.check(kind='property')
            if r == z3.sat:
                return 'sat', self.solver.model()
            if r == z3.unsat:
                return 'unsat', None
            return 'unknown', None
        finally:
            self.solver.pop()


# ---------------------------------------------------------------------------
# exploration

class PathRecord(dict):
    """what a harness returns for one explored path (picklable)"""


def run_path(eng, harness, prefix):
    """execute one path; returns (record|None, alternatives)"""
    eng._begin(prefix)
    try:
        rec = harness(eng)
    except Infeasible:
        return None, list(eng.alts)
    except EnumDone:
        return PathRecord(enum_trace=list(eng.trace)), list(eng.alts)
    except Unsupported as u:
        return PathRecord(inconclusive=str(u), trace=list(eng.trace)), list(eng.alts)
    except RecursionError:
        return PathRecord(inconclusive='interpreter recursion limit', trace=list(eng.trace)), list(eng.alts)
    if rec is None:
        return None, list(eng.alts)
    rec = PathRecord(rec)
    rec['trace'] = list(eng.trace)
    return rec, list(eng.alts)


def explore_seq(eng, harness, todo=None, max_paths=None, deadline=None):
    """DFS over decision prefixes; returns (records, leftover prefixes)"""
    todo = [[]] if todo is None else list(todo)
    out = []
    while todo:
        if max_paths is not None and len(out) >= max_paths:
            break
        if deadline is not None and time.time() > deadline:
            break
        rec, alts = run_path(eng, harness, todo.pop())
        todo.extend(alts)
        if rec is not None:
            out.append(rec)
    return out, todo


_WORKER = {}


def _worker_init(factory, seed, qtimeout, eager):
    eng = Engine(seed=seed, qtimeout_ms=qtimeout, eager=eager)
    harness = factory(eng)
    _WORKER['eng'] = eng
    _WORKER['harness'] = harness


def _worker_task(args):
    prefixes, chunk, deadline = args
    eng = _WORKER['eng']
    n0, t0, q0 = eng.nchecks, eng.tsolve, dict(eng.queries)
    try:
        recs, left = explore_seq(eng, _WORKER['harness'], prefixes, max_paths=chunk, deadline=deadline)
        err = None
    except Exception:
        recs, left, err = [], [], traceback.format_exc()
    stats = dict(nchecks=eng.nchecks - n0, tsolve=eng.tsolve - t0,
                 queries={k: eng.queries.get(k, 0) - q0.get(k, 0) for k in eng.queries})
    return recs, left, stats, err


def enumerate_paths(eng, harness, seeds, limit=100000):
    """lazy units: list the syntactic paths (complete decision traces) below `seeds` without any solver call"""
    eng.enum_only = True
    try:
        todo = list(seeds)
        out = []
        while todo and len(out) < limit:
            rec, alts = run_path(eng, harness, todo.pop())
            todo.extend(alts)
            if rec is not None and 'enum_trace' in rec:
                out.append(rec['enum_trace'])
            elif rec is not None:
                out.append(rec['trace'])
        return out
    finally:
        eng.enum_only = False


def explore(factory, seed=0, qtimeout_ms=60000, eager=True, nproc=None, chunk=40, budget_s=None, log=None, seeds=None):
    """Explore all paths of the harness built by `factory(eng)`.

    factory(eng) -> harness callable(eng) -> dict | None ; called once per process (it may
    declare templates at base level).  Returns dict(records, stats, leftover, errors).
    Work sharing: a task is a list of decision prefixes; a worker explores at most `chunk`
    paths below them and hands the unexplored prefixes back."""
    import multiprocessing as mp
    nproc = nproc or min(16, os.cpu_count() or 1)
    t0 = time.time()
    deadline = (t0 + budget_s) if budget_s else None
    stats = dict(nchecks=0, tsolve=0.0, queries={}, tasks=0)
    records, errors = [], []

    def absorb(st):
        stats['nchecks'] += st['nchecks']
        stats['tsolve'] += st['tsolve']
        for k, v in st['queries'].items():
            stats['queries'][k] = stats['queries'].get(k, 0) + v
        stats['tasks'] += 1

    if nproc <= 1:
        _worker_init(factory, seed, qtimeout_ms, eager)
        recs, left, st, err = _worker_task((list(seeds) if seeds else [[]], None, deadline))
        absorb(st)
        if err:
            errors.append(err)
        return dict(records=recs, stats=stats, leftover=left, errors=errors, wall_s=time.time() - t0)

    ctx = mp.get_context('fork')
    pool = ctx.Pool(nproc, initializer=_worker_init, initargs=(factory, seed, qtimeout_ms, eager))
    pending = []
    todo = list(seeds) if seeds else [[]]
    leftover = []
    try:
        # seed phase: a small first task, then fan out
        first = True
        while todo or pending:
            while todo and len(pending) < nproc * 2:
                if deadline is not None and time.time() > deadline:
                    leftover.extend(todo)
                    todo = []
                    break
                # hand out one prefix per task while there are few, batches later
                k = 1 if len(todo) < nproc * 4 else min(8, len(todo) // (nproc * 2))
                batch, todo = todo[-k:], todo[:-k]
                pending.append(pool.apply_async(_worker_task, ((batch, (4 if first and not seeds else chunk), deadline),)))
                first = False
            if not pending:
                break
            done = [p for p in pending if p.ready()]
            if not done:
                pending[0].wait(0.05)
                continue
            for p in done:
                pending.remove(p)
                recs, left, st, err = p.get()
                absorb(st)
                records.extend(recs)
                if err:
                    errors.append(err)
                todo.extend(left)
                if log and len(records) % 500 < len(recs):
                    log(f'  .. {len(records)} paths, todo {len(todo)}, {time.time() - t0:.0f}s')
    finally:
        pool.terminate()
        pool.join()
    return dict(records=records, stats=stats, leftover=leftover, errors=errors, wall_s=time.time() - t0)
