"""Shared symbolic harness for verify_signable (properties C01, C02, C12, C13).

Template: envelope {"signatures": map, "signed": payload}; the map has N entries under *free* key strings
(66 characters over all of Unicode: upper-case, whitespace, truncated, non-ASCII spellings are all inside)
whose values are signature entries with free strings and optional/extra fields (or any JSON kind), plus one
junk entry (free 3-character key, any JSON value); a list of M free authorised key strings; threshold and mode
of any kind.  ed25519 verification is the uninterpreted predicate Valid(key bytes, signature bytes, message),
so a verdict holds for every behaviour of the verifier, not only the honest one.  The oracle below is
written from the property text and consults Valid on the arguments the property names."""
import hashlib
import struct
import z3
from pysym.values import *
from pysym.interp import Interp
from pysym.tmpl import T, conc, freeze, get_slot, p_canon, p_hexeven, p_int_ge1, num_value
from pysym.models import canon, canon_even, spec_over, alt_cases, val_eq, bytes_eq, mk_hex_bytes, bytes_len
from pysym import stubs
from pysym.stubs import canon_of, valid, ENC_UTF8, ENC_ASCII, ENC_SURROGATEESCAPE
from pysym.hutil import *
from pysym import concrete as CC
from pysym.wire import to_wire, from_wire


# ---------------------------------------------------------------------------
# template

def sig_entry(t, name, Loh, rich):
    """a signature entry: dict with free strings; `rich` adds see_also / an extra field / non-string values"""
    sig = t.str(name + '.sig', 130)
    oh = t.str(name + '.oh', Loh)
    slots = [('signature', t.anyjson(name + '.sigv', first=[('s', sig)]) if rich else sig),
             ('other_headers', t.anyjson(name + '.ohv', first=[('s', oh)]) if rich else oh)]
    if rich:
        slots += [('see_also', t.anyjson(name + '.sav', first=[('s', t.str(name + '.sa', 42))])), ('zz', None)]
    sd = t.sdict(name, slots)
    if not rich:
        sd.slots[0][0] = True          # 'signature' always present in the plain entry
    return sd, sig, oh


def make_sigs(t, N, Loh=4, rich=False, junk=True, gpg_only=False):
    """signature map template: N entries under free keys (+ one junk entry)"""
    slots, real = [], []
    for i in range(N):
        key = t.str(f'k{i}', 66)
        sd, sig, oh = sig_entry(t, f'e{i}', Loh, rich)
        if gpg_only:
            sd.slots[1][0] = True
        val = t.anyjson(f'e{i}.v', first=[('entry', sd)]) if rich else sd
        slots.append((key, val))
        real.append(dict(key=key, entry=sd, val=val, sig=sig, oh=oh, idx=i))
    if junk:
        slots.append((t.str('junk.k', 3), t.anyjson('junk.v', strL=3)))
    return t.sdict('sigs', slots), real


def build(eng, ns, N=2, M=2, Loh=4, rich=False, junk=True, any_args=False, thr_kinds=('int', 'bool', 'float'), modes=(True, False), payload=None):
    t = T(eng, ns=ns)
    payload = payload(t) if callable(payload) else (payload if payload is not None else t.payload('payload', dict))
    sigs, real = make_sigs(t, N, Loh, rich, junk)
    env = {'signatures': sigs, 'signed': payload}
    signable = env
    if any_args:
        envd = t.sdict('env', [('signatures', t.anyjson('sigsv', first=[('m', sigs)])), ('signed', t.anyvalue('signedv', first=[('p', payload)])), ('zz', None)])
        signable = t.anyvalue('signable', first=[('env', envd)])
    auth_items = [t.str(f'a{j}', 66) for j in range(M)]
    if any_args:
        auth_items = [t.anyjson(f'a{j}.v', first=[('s', a)]) for j, a in enumerate(auth_items)]
    auth = t.slist('auth', auth_items)
    authv = t.anyvalue('authv', first=[('l', auth)]) if any_args else auth
    kinds = {'int': ('int', t.int('thr.i')), 'bool': ('bool', t.bool('thr.b')), 'float': ('float', t.float('thr.f')),
             'none': ('none', None), 'str': ('str', t.str('thr.s', 2)), 'list': ('list', [])}
    thr = t.any('thr', [kinds[k] for k in thr_kinds])
    gpg = t.any('gpg', [(repr(v), v) for v in modes])
    enc = t.int('stdout_enc')
    eng.domain(('enc', ns), z3.And(enc.e >= 0, enc.e <= 2))
    return dict(signable=signable, env=env, sigs=sigs, payload=payload, real=real, junk=junk, auth=auth, authv=authv,
                auth_items=auth_items, thr=thr, gpg=gpg, enc=enc, any_args=any_args, N=N)


# ---------------------------------------------------------------------------
# oracle (from the property text)

def gpg_truth(gpg):
    """mode = truthiness of the gpg argument"""
    return spec_over(gpg, lambda v: bool(v))


def entry_strings(r):
    """(is a dict, signature string or None-guard, other_headers ...) for a real slot -> guards and SStr values"""
    return r['sig'], r['oh']


def slot_facts(it, sigs, r, mode_gpg, keylist, keyitems, msg_raw):
    """z3 facts about signature-map slot r w.r.t. an authorised key list and the canonical payload bytes"""
    p = zb(sigs.slots[r['idx']][0])
    key, sd, sig, oh = r['key'], r['entry'], r['sig'], r['oh']
    is_entry = (r['val'].tag == 0) if isinstance(r['val'], SAny) else z3.BoolVal(True)
    (ps, sv), (po, ov) = get_slot(sd, 'signature'), get_slot(sd, 'other_headers')
    pa, sav = get_slot(sd, 'see_also')
    pz, _ = get_slot(sd, 'zz')
    sig_is_str = (sv.tag == 0) if isinstance(sv, SAny) else z3.BoolVal(True)
    oh_is_str = (ov.tag == 0) if isinstance(ov, SAny) else z3.BoolVal(True)
    sig_ok = z3.And(is_entry, ps, sig_is_str, canon(sig, 128))
    oh_ok = z3.And(po, oh_is_str, canon_even(oh))
    sa_ok = z3.Or(z3.Not(pa), spec_over(sav, p_canon(40))) if sav is not None else z3.BoolVal(True)
    raw_shape = z3.And(sig_ok, z3.Not(po), z3.Not(pa), z3.Not(pz))
    gpg_shape = z3.And(sig_ok, oh_ok, sa_ok, z3.Not(pz))
    in_auth = zor([z3.And(keylist.n > j, spec_over(a, lambda x: key.eq_sym(x) if isinstance(x, SStr) else False))
                   for j, a in enumerate(keyitems)])
    keyb, sigb = mk_hex_bytes(it, key), mk_hex_bytes(it, sig)
    ohb = mk_hex_bytes(it, oh)
    msg_gpg = SBytes('digest', alg='SHA256', parts=[msg_raw, ohb, b'\x04\xff', SBytes('packed', fmt='>I', e=oh.n / 2)])
    v_raw = valid(it, keyb, sigb, msg_raw)
    v_gpg = valid(it, keyb, sigb, msg_gpg)
    base = z3.And(p, canon(key, 64), in_auth)
    # liberal: anything that could possibly count (soundness); strict: what certainly must count (completeness)
    liberal = z3.And(base, sig_ok, z3.If(mode_gpg, z3.And(oh_ok, v_gpg), v_raw))
    strict = z3.And(base, z3.If(mode_gpg, z3.And(gpg_shape, v_gpg), z3.And(raw_shape, v_raw)))
    return dict(liberal=liberal, strict=strict, present=p)


def counts(it, sigs, real, mode_gpg, keylist, keyitems, msg_raw):
    """(liberal, strict) number of contributing signature-map entries (keys of present entries are distinct)"""
    facts = [slot_facts(it, sigs, r, mode_gpg, keylist, keyitems, msg_raw) for r in real]
    lib = z3.Sum([z3.If(f['liberal'], 1, 0) for f in facts] + [z3.IntVal(0)])
    strict = z3.Sum([z3.If(f['strict'], 1, 0) for f in facts] + [z3.IntVal(0)])
    return lib, strict, facts


def int_thr(thr):
    """(is a Python int / True and >= 1, its value) for a threshold template"""
    ok = spec_over(thr, p_int_ge1)
    val = z3.Sum([z3.If(g, num_value(x) if isinstance(x, (SInt, SBool, int, bool)) else z3.IntVal(0), 0) for g, x in alt_cases(thr)] + [z3.IntVal(0)])
    return ok, val


def oracle(it, tp):
    mode = gpg_truth(tp['gpg'])
    lib, strict, facts = counts(it, tp['sigs'], tp['real'], mode, tp['auth'], tp['auth_items'], canon_of(it, tp['payload']))
    thr_ok, thr_val = int_thr(tp['thr'])
    auth_ok = zand([z3.Implies(tp['auth'].n > j, spec_over(a, p_canon(64))) for j, a in enumerate(tp['auth_items'])])
    if tp['any_args']:
        auth_ok = z3.And(tp['authv'].tag == 0, auth_ok)
    return dict(mode=mode, lib=lib, strict=strict, thr_ok=thr_ok, thr_val=thr_val, auth_ok=auth_ok)


def envelope_ok(tp):
    """the envelope argument is a two-field signed envelope (only relevant with any_args)"""
    if not tp['any_args']:
        return z3.BoolVal(True)
    s = tp['signable']
    envd = s.alts[0][1]
    (pS, sv), (pD, dv), (pz, _) = [get_slot(envd, k) for k in ('signatures', 'signed', 'zz')]
    # signed: payload token or any value whose type is JSON-serialisable at top level
    ser = zor([dv.tag == i for i, (lab, v) in enumerate(dv.alts) if pytype_of(v) in (dict, list, tuple, str, int, float, bool, type(None))])
    return z3.And(s.tag == 0, pS, pD, z3.Not(pz), sv.tag == 0, ser)


# ---------------------------------------------------------------------------
# witness / counterexample construction

def bytes_desc(m, b):
    """message descriptor (see pysym.concrete.msg_bytes) for a bytes value under model m"""
    if isinstance(b, (bytes, bytearray)):
        return {'bytes': bytes(b).hex()}
    if b.kind == 'hex':
        return {'hexstr': conc(m, b.src)}
    if b.kind == 'canon':
        return {'canon': to_wire(conc(m, b.snapshot))}
    if b.kind == 'packed':
        return {'pack': [b.fmt, m.eval(b.e, model_completion=True).as_long()]}
    if b.kind == 'digest':
        return {'digest': [bytes_desc(m, p) for p in b.parts]}
    if b.kind in ('raw', 'keyraw'):
        return {'bytes': conc(m, b).hex()}
    raise ValueError('bytes_desc ' + b.kind)


def valid_table(eng, m):
    out = []
    for nm, calls in eng.uf_calls.items():
        if nm != 'Valid':
            continue
        for (k, s, msg), var in calls:
            try:
                kd, sd = bytes_desc(m, k), bytes_desc(m, s)
                out.append(dict(key=kd.get('hexstr', kd.get('bytes')), sig=sd.get('hexstr', sd.get('bytes')), msg=bytes_desc(m, msg),
                                valid=bool(z3.is_true(m.eval(var, model_completion=True)))))
            except Exception:
                continue
    return out


ENC_NAMES = {ENC_UTF8: 'utf-8', ENC_ASCII: 'ascii', ENC_SURROGATEESCAPE: 'surrogateescape'}


def mk_case(eng, tp, m, func='verify_signable'):
    enc = m.eval(tp['enc'].e, model_completion=True).as_long()
    return dict(scenario='verify_signable', signable=to_wire(conc(m, tp['signable'])), auth=to_wire(conc(m, tp['authv'])),
                threshold=to_wire(conc(m, tp['thr'])), gpg=to_wire(conc(m, tp['gpg'])),
                env=dict(valid=valid_table(eng, m), stdout_enc=ENC_NAMES[enc]))


# ---------------------------------------------------------------------------
# the harness

def factory(ns, props, model_print=True, **kw):
    """props: subset of {'C01','C02','C12','C13'} -- which obligations to pose"""
    def f(eng):
        import conda_content_trust.authentication as A
        from harness import lemmas
        ovr = lemmas.overrides(eng)

        def harness(eng):
            tp = build(eng, ns, **kw)
            freeze(tp['signable'])
            freeze(tp['authv'])
            if model_print:
                eng.path_local['stdout_enc'] = tp['enc']
            it = Interp(eng, ovr)
            out = run_call(it, A.verify_signable, [tp['signable'], tp['authv'], tp['thr']], {'gpg': tp['gpg']})
            o = oracle(it, tp)           # before the model is taken: the oracle adds Valid applications
            m = path_model(eng)
            if m is None:
                return None
            mk = lambda mm: mk_case(eng, tp, mm)
            obs = []
            env_ok = envelope_ok(tp)
            args_ok = z3.And(env_ok, o['auth_ok'], o['thr_ok'])
            if is_ret(out):
                if 'C01' in props:
                    obs.append(oblige(eng, 'accepted => threshold is a positive int and enough distinct authorised keys have valid signatures over the presented payload',
                                      z3.Not(z3.And(o['thr_ok'], o['lib'] >= o['thr_val'])), mk))
            else:
                if 'C02' in props:
                    obs.append(oblige(eng, 'enough valid authorised signatures (and valid arguments) => accepted, whatever junk is present and whatever stdout can encode',
                                      z3.And(args_ok, o['strict'] >= o['thr_val']), mk))
                if 'C13' in props:
                    if not documented(out):
                        obs.append(oblige(eng, 'rejections use the documented error families', True, mk))
                    elif not exc_in(out, ('SignatureError',)):
                        obs.append(oblige(eng, 'insufficient signatures on well-formed arguments are reported as SignatureError', args_ok, mk))
            if 'C12' in props and any(e['kind'] == 'arg_mutation' for e in eng.events):
                obs.append(oblige(eng, 'verification does not modify its arguments', True, mk))
            w = mk(m)
            w['predicted'] = predicted(out)
            reach = ['accepts'] if is_ret(out) else ['rejects:' + out[1]]
            if is_ret(out):
                mv = m.eval(o['mode'], model_completion=True)
                reach.append('accepts:gpg' if z3.is_true(mv) else 'accepts:raw')
            return record(eng, out, obs, w, reach)
        return harness
    return f


# ---------------------------------------------------------------------------
# concrete side

def run_verify_signable(case):
    import conda_content_trust.authentication as A
    env = case.get('env', {})
    CC.setup_valid_table(env.get('valid', []))
    signable = from_wire(case['signable'])
    auth = from_wire(case['auth'])
    thr = from_wire(case['threshold'])
    gpg = from_wire(case['gpg'])
    before = to_wire([signable, auth])
    with CC.stdout_as(env.get('stdout_enc')):
        oc = CC.outcome_of(A.verify_signable, signable, auth, thr, gpg=gpg)
    return {'outcome': oc, 'unchanged': to_wire([signable, auth]) == before}


def _hexn(x, n=None):
    import re
    if not isinstance(x, str) or '\n' in x:
        return False
    return re.fullmatch(r'(?:[0-9a-f]{2})+' if n is None else r'[0-9a-f]{%d}' % n, x, re.ASCII) is not None


def concrete_counts(signable, auth, gpg):
    """(liberal count, strict count) of contributing keys, from the property text, using the stub Valid table"""
    from conda_content_trust.common import canonserialize
    if not (isinstance(signable, dict) and isinstance(signable.get('signatures'), dict) and isinstance(auth, list)):
        return 0, 0
    try:
        data = canonserialize(signable['signed'])
    except Exception:
        return 0, 0
    lib, strict = set(), set()
    for k, e in signable['signatures'].items():
        if not _hexn(k, 64) or k not in [a for a in auth if isinstance(a, str)]:
            continue
        if not isinstance(e, dict) or not _hexn(e.get('signature'), 128):
            continue
        ks = set(e)
        sig = bytes.fromhex(e['signature'])
        if gpg:
            if not _hexn(e.get('other_headers')):
                continue
            msg = CC.gpg_digest(data, bytes.fromhex(e['other_headers']))
            shape = ks in ({'signature', 'other_headers'}, {'signature', 'other_headers', 'see_also'}) and ('see_also' not in ks or _hexn(e['see_also'], 40))
        else:
            msg = data
            shape = ks == {'signature'}
        if CC.CRYPTO.table.get((bytes.fromhex(k), sig, msg), False):
            lib.add(bytes.fromhex(k))
            if shape:
                strict.add(bytes.fromhex(k))
    return len(lib), len(strict)


def judge_verify_signable(case, obs, props):
    if 'outcome' not in obs:
        return None
    CC.setup_valid_table(case.get('env', {}).get('valid', []))
    signable, auth = from_wire(case['signable']), from_wire(case['auth'])
    thr, gpg = from_wire(case['threshold']), from_wire(case['gpg'])
    oc = obs['outcome']
    try:
        mode = bool(gpg)
    except Exception:
        return None
    lib, strict = concrete_counts(signable, auth, mode)
    thr_ok = isinstance(thr, int) and thr >= 1
    env_ok = isinstance(signable, dict) and set(signable) == {'signatures', 'signed'} and isinstance(signable['signatures'], dict) \
        and type(signable['signed']) in (dict, list, tuple, str, int, float, bool, type(None))
    auth_ok = isinstance(auth, list) and all(_hexn(a, 64) for a in auth)
    if oc['kind'] == 'ret':
        if 'C01' in props and not (thr_ok and lib >= thr):
            return f'verify_signable accepted with threshold {thr!r} although only {lib} distinct authorised key(s) have a valid signature over the presented payload'
    else:
        if 'C02' in props and thr_ok and env_ok and auth_ok and strict >= thr:
            return f'verify_signable raised {oc["cls"]} ({oc["msg"]:.120}) although {strict} distinct authorised key(s) have well-formed valid signatures and the threshold is {thr}'
        if 'C13' in props:
            if not CC.documented(oc):
                return f'verify_signable raised {oc["cls"]}, which is outside the documented error families'
            if thr_ok and env_ok and auth_ok and 'SignatureError' not in oc['mro']:
                return f'verify_signable reported insufficient signatures on well-formed arguments as {oc["cls"]} instead of SignatureError'
    if 'C12' in props and not obs.get('unchanged', True):
        return 'verify_signable modified its arguments'
    return None
