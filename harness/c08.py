"""C08 -- persisting metadata never changes its trust status.

Engine A (this module): write_metadata_to_file / load_metadata_from_file / sign_signable are interpreted on the in-memory
file system under assumption A3 (Canon injective, Parse(Canon(v)) = v): the file written is Canon(value), serialised
BEFORE the file is opened (truncated); a file that already holds an `==`-equal but different JSON value (1 vs 1.0 vs
true) is overwritten; load gives the value back; write(load(file)) is a fixpoint; in a write / load / add-signature /
write / load cycle the earlier signature entry survives unchanged and the interpreted verify_signable verdict on the
loaded envelope equals the verdict on the in-memory one.
Engine B (xhair/c08_roundtrip.py, run by this check as well): CrossHair searches for a JSON value v with
load(write(v)) != v (type-exact) or canonserialize(load(write(v))) != canonserialize(v) on the REAL functions with the
file layer redirected to memory -- this is what attacks A3 for the loader (time-budgeted, bug hunting only)."""
import os
import subprocess
import sys
import time
import z3
from pysym.values import *
from pysym.interp import Interp, Frame
from pysym.tmpl import T, conc
from pysym.models import val_eq, bytes_eq, contains, getitem, dict_slots
from pysym.stubs import FS, canon_of, json_eq, public_of
from pysym.hutil import *
from pysym.framework import Unit, HERE
from pysym import concrete as CC
from pysym.wire import to_wire, from_wire
from harness import c09

ID = 'C08'


def num(t, name):
    return t.any(name, [('int', t.int(name + '.i')), ('float', t.float(name + '.f')), ('bool', t.bool(name + '.b')), ('str', t.str(name + '.s', 2)), ('null', None)])


def overwrite_factory(ns):
    def f(eng):
        import conda_content_trust.common as C

        def harness(eng):
            t = T(eng, ns=ns)
            v1 = {'threshold': num(t, 'a'), 'nested': {'final': num(t, 'b')}, 'list': [num(t, 'c')]}
            v2 = {'threshold': num(t, 'a2'), 'nested': {'final': num(t, 'b2')}, 'list': [num(t, 'c2')]}
            prior = t.any('prior', [('missing', None), ('v1', 'V1'), ('notjson', Opaque(bytes, 'notjson', None))])
            it = Interp(eng)
            fs = FS()
            eng.path_local['fs'] = fs
            prior.alts[1] = ('v1', canon_of(it, v1))
            fs.files['md.json'] = prior
            eng.events.clear()
            w = run_call(it, C.write_metadata_to_file, [v2, 'md.json'])
            ev = [e['kind'] for e in eng.events if e['kind'] in ('serialize', 'truncate')]
            mk = lambda mm: dict(scenario='overwrite', prior=['missing', 'v1', 'notjson'][mm.eval(prior.tag, model_completion=True).as_long()], v1=to_wire(conc(mm, v1)), v2=to_wire(conc(mm, v2)))
            obs, structural = [], []
            if not is_ret(w):
                structural.append('writing JSON-serialisable metadata succeeds')
            else:
                cur = fs.files.get('md.json')
                want = canon_of(it, v2)
                if not isinstance(cur, (SBytes, bytes)):
                    structural.append('the file holds bytes after writing')
                else:
                    obs.append(oblige(eng, 'the file written is the canonical serialisation of the value just written (whatever it held before)', z3.Not(bytes_eq(it, cur, want)), mk))
                if 'truncate' in ev and 'serialize' in ev[ev.index('truncate'):]:
                    structural.append('the value is serialised before the file is opened for writing')
                l = run_call(it, C.load_metadata_from_file, ['md.json'])
                if not is_ret(l):
                    structural.append('loading the file just written succeeds')
                else:
                    obs.append(oblige(eng, 'loading gives an equal JSON value back', z3.Not(json_eq(it, l[1], v2)), mk))
                    w2 = run_call(it, C.write_metadata_to_file, [l[1], 'md.json'])
                    cur2 = fs.files.get('md.json')
                    if is_ret(w2) and isinstance(cur2, (SBytes, bytes)) and isinstance(cur, (SBytes, bytes)):
                        obs.append(oblige(eng, 'writing the loaded value again reproduces the same bytes (fixpoint)', z3.Not(bytes_eq(it, cur, cur2)), mk))
                    # ---- the file is replaced from outside (os.replace of a temporary file, another process): the next load follows the file
                    fs.replace_external('md.json', canon_of(it, v1))
                    l3 = run_call(it, C.load_metadata_from_file, ['md.json'])
                    if not is_ret(l3):
                        structural.append('loading a file that was replaced from outside succeeds')
                    else:
                        obs.append(oblige(eng, 'after the file was replaced from outside, loading gives the NEW content (nothing remembered from the earlier load)', z3.Not(json_eq(it, l3[1], v1)), mk))
                        # a value obtained from one load is not affected by what is done to the value of another load
                        l4 = run_call(it, C.load_metadata_from_file, ['md.json'])
                        if is_ret(l4) and isinstance(l4[1], (dict, SDict)):
                            from pysym.models import setitem, getitem
                            try:
                                inner = getitem(it, Frame(it, overwrite_factory, {}, None), l4[1], 'nested')
                                setitem(it, Frame(it, overwrite_factory, {}, None), inner, 'final', 'tampered')
                            except Exception:
                                inner = None
                            l5 = run_call(it, C.load_metadata_from_file, ['md.json'])
                            if inner is not None and is_ret(l5):
                                obs.append(oblige(eng, 'changing (deep inside) a loaded value does not change what a later load of the unchanged file returns', z3.Not(json_eq(it, l5[1], v1)), mk))
            m = path_model(eng)
            if m is None:
                return None
            for name in structural:
                obs.append(dict(name=name, status='sat', cex=mk(m)))
            wv = mk(m)
            wv['predicted'] = predicted(w)
            return record(eng, w, obs, wv, ['written'] if is_ret(w) else ['failed'])
        return harness
    return f


def rootfile_factory(ns):
    """a well-formed trusted root file (free version numbers) is loaded, replaced from outside by its successor, loaded again"""
    def f(eng):
        import conda_content_trust.common as C

        def harness(eng):
            t = T(eng, ns=ns)
            va, vb = t.int('va'), t.int('vb')
            eng.add(va.e >= 1, vb.e >= 1)

            def doc(v, key):
                return {'signatures': {}, 'signed': {'type': 'root', 'metadata_spec_version': '0.6.0', 'version': v, 'timestamp': '2024-01-01T00:00:00Z', 'expiration': '2034-01-01T00:00:00Z',
                                                      'delegations': {'root': {'pubkeys': [key], 'threshold': 1}, 'key_mgr': {'pubkeys': ['cd' * 32], 'threshold': 1}}}}
            d1, d2 = doc(va, 'ab' * 32), doc(vb, 'ef' * 32)
            it = Interp(eng)
            fs = FS()
            eng.path_local['fs'] = fs
            fs.files['root.json'] = canon_of(it, d1)
            mk = lambda mm: dict(scenario='rootfile', va=conc(mm, va), vb=conc(mm, vb))
            obs = []
            l1 = run_call(it, C.load_metadata_from_file, ['root.json'])
            fs.replace_external('root.json', canon_of(it, d2))          # replaced from outside (os.replace of a temporary file, another process)
            l2 = run_call(it, C.load_metadata_from_file, ['root.json'])
            if not is_ret(l1) or not is_ret(l2):
                obs.append(oblige(eng, 'loading a well-formed root file succeeds', True, mk))
            else:
                obs.append(oblige(eng, 'the trusted root file loads as what it holds', z3.Not(json_eq(it, l1[1], d1)), mk))
                obs.append(oblige(eng, 'after the trusted root file was replaced by its successor, loading gives the successor (keys and version of the file, not of an earlier load)', z3.Not(json_eq(it, l2[1], d2)), mk))
            m = path_model(eng)
            if m is None:
                return None
            wv = mk(m)
            wv['predicted'] = predicted(l2)
            return record(eng, l2, obs, wv, ['reloaded'] if is_ret(l2) else ['failed'])
        return harness
    return f


def envelope_factory(ns):
    """an envelope whose signature map has entries under FREE key strings (any spelling) is written and loaded"""
    def f(eng):
        import conda_content_trust.common as C

        def harness(eng):
            t = T(eng, ns=ns)
            k1, k2 = t.str('k1', 4), t.str('k2', 4)
            sigs = t.sdict('sigs', [(k1, {'signature': 'ab' * 64}), (k2, t.anyjson('junkv', strL=2))])
            env = {'signatures': sigs, 'signed': t.payload('p', dict)}
            it = Interp(eng)
            fs = FS()
            eng.path_local['fs'] = fs
            w = run_call(it, C.write_metadata_to_file, [env, 'e.json'])
            l = run_call(it, C.load_metadata_from_file, ['e.json'])
            mk = lambda mm: dict(scenario='envelope', env=to_wire(conc(mm, env)))
            obs = []
            if not is_ret(w) or not is_ret(l):
                obs.append(oblige(eng, 'write / load of an envelope succeeds', True, mk))
            else:
                obs.append(oblige(eng, 'loading an envelope gives an equal JSON value back (signature map included, whatever its keys look like)', z3.Not(json_eq(it, l[1], env)), mk))
                obs.append(oblige(eng, 'the canonical bytes of the loaded envelope are the bytes of the file', z3.Not(bytes_eq(it, canon_of(it, l[1]), fs.files.get('e.json'))), mk))
            m = path_model(eng)
            if m is None:
                return None
            wv = mk(m)
            wv['predicted'] = {'kind': 'ret'} if is_ret(w) and is_ret(l) else predicted(w if not is_ret(w) else l)
            return record(eng, l if is_ret(w) else w, obs, wv, ['roundtrip'])
        return harness
    return f


def cycle_factory(ns):
    def f(eng):
        import conda_content_trust.common as C
        import conda_content_trust.signing as S
        import conda_content_trust.authentication as A
        from harness import lemmas
        ovr = lemmas.overrides(eng)

        def harness(eng):
            t = T(eng, ns=ns)
            p = t.payload('p', dict)
            sks = c09.mk_keys(t, 2)
            thr = t.int('thr')
            gpg = t.any('gpg', [('False', False), ('True', True)])
            it = Interp(eng, ovr)
            root = Frame(it, cycle_factory, {}, None)
            fs = FS()
            eng.path_local['fs'] = fs
            env = run_call(it, S.wrap_as_signable, [p])[1]
            run_call(it, S.sign_signable, [env, sks[0]])
            pub0 = run_call(it, C.PublicKey.to_hex, [public_of(it, sks[0])])[1]
            pub1 = run_call(it, C.PublicKey.to_hex, [public_of(it, sks[1])])[1]
            auth = [pub0, pub1]
            mk = lambda mm: dict(scenario='cycle', payload=to_wire(conc(mm, p)), seeds=[mm.eval(k.raw.kid, model_completion=True).as_long() for k in sks],
                                 thr=conc(mm, thr), gpg=conc(mm, gpg))
            obs, structural = [], []
            steps = [run_call(it, C.write_metadata_to_file, [env, 'env.json']), run_call(it, C.load_metadata_from_file, ['env.json'])]
            if not all(is_ret(s) for s in steps):
                structural.append('write / load of a signed envelope succeeds')
            else:
                loaded = steps[1][1]
                v_mem = run_call(it, A.verify_signable, [env, auth, thr], {'gpg': gpg})
                v_load = run_call(it, A.verify_signable, [loaded, auth, thr], {'gpg': gpg})
                if is_ret(v_mem) != is_ret(v_load):
                    obs.append(oblige(eng, 'the verdict on the loaded envelope equals the verdict on the in-memory envelope', True, mk))
                before = getitem(it, root, loaded['signatures'], pub0)
                run_call(it, S.sign_signable, [loaded, sks[1]])
                s2 = [run_call(it, C.write_metadata_to_file, [loaded, 'env.json']), run_call(it, C.load_metadata_from_file, ['env.json'])]
                if not all(is_ret(s) for s in s2):
                    structural.append('re-sign / write / load succeeds')
                else:
                    again = s2[1][1]
                    has = contains(it, root, again['signatures'], pub0)
                    has = has.e if isinstance(has, SBool) else z3.BoolVal(bool(has))
                    obs.append(oblige(eng, 'adding a signature to a stored file keeps the signatures already present', z3.Not(has), mk))
                    if eng.fork(has):
                        after = getitem(it, root, again['signatures'], pub0)
                        distinct = z3.Not(bytes_eq(it, sks[0].raw, sks[1].raw))
                        obs.append(oblige(eng, 'and leaves them unchanged', z3.And(distinct, z3.Not(json_eq(it, before, after))), mk))
                    obs.append(oblige(eng, 'the payload is unchanged by the cycle', z3.Not(json_eq(it, again['signed'], p)), mk))
                    v3 = run_call(it, A.verify_signable, [again, auth, thr], {'gpg': gpg})
                    v3m = run_call(it, A.verify_signable, [loaded, auth, thr], {'gpg': gpg})
                    if is_ret(v3) != is_ret(v3m):
                        obs.append(oblige(eng, 'after the second cycle the verdict on the loaded envelope still equals the in-memory verdict', True, mk))
            m = path_model(eng)
            if m is None:
                return None
            for name in structural:
                obs.append(dict(name=name, status='sat', cex=mk(m)))
            if not obs:
                obs.append(dict(name='cycle consistent on this path', status='unsat'))
            w = mk(m)
            w['predicted'] = {'kind': 'ret'}
            return record(eng, ('ret', None), obs, w, ['cycle'])
        return harness
    return f


def _same(a, b):
    if type(a) is not type(b):
        return False
    if isinstance(a, dict):
        return sorted(a) == sorted(b) and all(_same(a[k], b[k]) for k in a)
    if isinstance(a, list):
        return len(a) == len(b) and all(_same(x, y) for x, y in zip(a, b))
    if isinstance(a, float):
        return a == b or (a != a and b != b)
    return a == b


def concrete(case):
    import conda_content_trust.common as C
    import conda_content_trust.signing as S
    import conda_content_trust.authentication as A
    probs = []
    if case['scenario'] == 'envelope':
        env = from_wire(case['env'])
        with CC.temp_files({'e.json': None}) as paths:
            p = paths['e.json']
            oc = CC.outcome_of(C.write_metadata_to_file, env, p)
            if oc['kind'] == 'ret':
                raw = open(p, 'rb').read()
                back = C.load_metadata_from_file(p)
                if not _same(back, env):
                    probs.append(f'loading gives {back!r:.120} for {env!r:.120}')
                elif CC.ref_canon(back) != raw:
                    probs.append('canonical bytes of the loaded envelope differ from the file')
        return {'outcome': oc, 'problems': probs}
    if case['scenario'] == 'rootfile':
        import os

        def doc(v, key):
            return {'signatures': {}, 'signed': {'type': 'root', 'metadata_spec_version': '0.6.0', 'version': v, 'timestamp': '2024-01-01T00:00:00Z', 'expiration': '2034-01-01T00:00:00Z',
                                                  'delegations': {'root': {'pubkeys': [key], 'threshold': 1}, 'key_mgr': {'pubkeys': ['cd' * 32], 'threshold': 1}}}}
        d1, d2 = doc(case['va'], 'ab' * 32), doc(case['vb'], 'ef' * 32)
        with CC.temp_files({'root.json': CC.ref_canon(d1)}) as paths:
            p = paths['root.json']
            oc = CC.outcome_of(C.load_metadata_from_file, p)
            if oc['kind'] == 'ret' and not _same(from_wire(oc['value']), d1):
                probs.append('the root file does not load as what it holds')
            with open(p + '.tmp', 'wb') as fo:
                fo.write(CC.ref_canon(d2))
            st0 = os.stat(p)
            os.replace(p + '.tmp', p)
            os.utime(p, ns=(st0.st_atime_ns, st0.st_mtime_ns + 1000000))      # strictly later, as in the file-system stub
            oc = CC.outcome_of(C.load_metadata_from_file, p)
            if oc['kind'] != 'ret':
                probs.append(f'loading the replaced root file raised {oc["cls"]}')
            elif not _same(from_wire(oc['value']), d2):
                probs.append(f'after the trusted root file was replaced by its successor (version {case["vb"]}), loading still gives version {from_wire(oc["value"])["signed"].get("version")} with the old keys')
        return {'outcome': oc, 'problems': probs}
    if case['scenario'] == 'overwrite':
        v1, v2 = from_wire(case['v1']), from_wire(case['v2'])
        prior = {'missing': None, 'v1': CC.ref_canon(v1), 'notjson': b'{not json'}[case['prior']]
        with CC.temp_files({'md.json': prior}) as paths:
            p = paths['md.json']
            oc = CC.outcome_of(C.write_metadata_to_file, v2, p)
            if oc['kind'] == 'ret':
                raw = open(p, 'rb').read()
                if raw != CC.ref_canon(v2):
                    probs.append('the file does not hold the canonical serialisation of the value just written')
                back = C.load_metadata_from_file(p)
                if not _same(back, v2):
                    probs.append(f'loading gives {back!r:.80} for {v2!r:.80}')
                C.write_metadata_to_file(back, p)
                if open(p, 'rb').read() != raw:
                    probs.append('write(load(file)) is not a fixpoint')
                # replaced from outside (same size or not, possibly within the same clock tick): os.replace of a temporary file
                import os
                tmp = p + '.tmp'
                with open(tmp, 'wb') as fo:
                    fo.write(CC.ref_canon(v1))
                st = os.stat(p)
                os.replace(tmp, p)
                try:
                    os.utime(p, ns=(st.st_atime_ns, st.st_mtime_ns + 1000000))     # strictly later, as in the file-system stub
                except Exception:
                    pass
                try:
                    back3 = C.load_metadata_from_file(p)
                    if not _same(back3, v1):
                        probs.append(f'after the file was replaced from outside, loading still gives {back3!r:.80} instead of {v1!r:.80}')
                    back4 = C.load_metadata_from_file(p)
                    if isinstance(back4, dict) and isinstance(back4.get('nested'), dict):
                        back4['nested']['final'] = 'tampered'
                    back5 = C.load_metadata_from_file(p)
                    if not _same(back5, v1):
                        probs.append(f'changing a loaded value changed what a later load of the unchanged file returns: {back5!r:.80}')
                except Exception as e:
                    probs.append(f'loading a replaced file raised {type(e).__name__}')
            else:
                probs.append(f'write raised {oc["cls"]}')
        return {'outcome': oc, 'problems': probs}
    payload = from_wire(case['payload'])
    sks = [C.PrivateKey.from_bytes(c09.seed_bytes(s)) for s in case['seeds']]
    pubs = [C.PublicKey.to_hex(k.public_key()) for k in sks]
    auth = list(dict.fromkeys(pubs))
    with CC.temp_files({'env.json': None}) as paths, CC.stdout_as(None):
        p = paths['env.json']
        env = S.wrap_as_signable(payload)
        S.sign_signable(env, sks[0])
        C.write_metadata_to_file(env, p)
        loaded = C.load_metadata_from_file(p)
        kw = dict(gpg=case['gpg'])
        a = CC.outcome_of(A.verify_signable, env, auth, case['thr'], **kw)
        b = CC.outcome_of(A.verify_signable, loaded, auth, case['thr'], **kw)
        if a['kind'] != b['kind']:
            probs.append(f'verdict in memory {a["kind"]} vs after write/load {b["kind"]}')
        first = loaded['signatures'].get(pubs[0])
        S.sign_signable(loaded, sks[1])
        C.write_metadata_to_file(loaded, p)
        again = C.load_metadata_from_file(p)
        if pubs[0] != pubs[1] and again['signatures'].get(pubs[0]) != first:
            probs.append('adding a signature to a stored file altered or dropped the signature already present')
        if CC.ref_canon(again['signed']) != CC.ref_canon(payload):
            probs.append('the payload changed in the cycle')
        c = CC.outcome_of(A.verify_signable, again, auth, case['thr'], **kw)
        d = CC.outcome_of(A.verify_signable, loaded, auth, case['thr'], **kw)
        if c['kind'] != d['kind']:
            probs.append('verdict differs after the second cycle')
    return {'outcome': {'kind': 'ret'}, 'problems': probs}


def agrees(case, obs):
    return 'outcome' in obs and CC.same_outcome(case.get('predicted'), obs['outcome'])


def judge(case, obs):
    return '; '.join(obs.get('problems', [])[:3]) or None


def post(res, tier):
    """Engine B: CrossHair on the real write/load functions with the file layer in memory"""
    from xhair import run as X
    X.run_conditions(res, 'xhair/c08_roundtrip.py', budget=30 if tier == 'quick' else 240, module=sys.modules[__name__])


def units(tier):
    return [Unit('overwrite / load / rewrite', overwrite_factory('ow'), expect=('written',), max_witnesses=150),
            Unit('trusted root file replaced', rootfile_factory('rf'), expect=('reloaded',), max_witnesses=20),
            Unit('envelope roundtrip', envelope_factory('en'), expect=('roundtrip',), max_witnesses=60),
            Unit('sign-write-load-sign-write-load', cycle_factory('cy'), expect=('cycle',), max_witnesses=60)]


BOUNDS = dict(values='JSON object with three number-like fields (int / binary64 / bool / short string / null, nested in an object and a list); the file previously missing, holding another such value (possibly `==`-equal), or not JSON',
              cycle='payload token, 2 keys (possibly equal), free threshold, both modes; operations: wrap, sign, write, load, verify (memory vs loaded), sign again, write, load, verify',
              crosshair='see xhair/c08_roundtrip.py: bounded JSON values, per-condition time budget')
OUTSIDE = 'the JSON codec itself is covered only by the time-budgeted CrossHair search (A3 is assumed in Engine A); real disk semantics beyond write-truncates-at-open; longer operation sequences'
ASSUMPTIONS = ['A3 in Engine A; Sign / Pub axioms as C09']
