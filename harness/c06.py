"""C06 -- the declared metadata type is bound to the role by signed content alone (see harness/vdeleg.py)"""
from pysym.framework import Unit
from pysym import concrete as CC
from harness import vdeleg

ID = 'C06'
PROPS = ('C06',)


def units(tier):
    q = tier == 'quick'
    us = [Unit('verify_delegation:R2', vdeleg.factory_vd('d2', PROPS, relational=True, R=(1 if q else 2), M=1, N=1, junk=True),
               expect=('accepts', 'rejects:SignatureError', 'rejects:MetadataVerificationError'), max_witnesses=300)]
    if not q:
        us.append(Unit('verify_delegation:R2M2N2', vdeleg.factory_vd('d22', PROPS, relational=True, R=2, M=2, N=2, junk=False, thr_kinds=('int', 'bool', 'float')),
                       expect=('accepts',), max_witnesses=800))
    return us


def concrete(case):
    return vdeleg.run_vd(case)


def agrees(case, obs):
    return 'outcome' in obs and CC.same_outcome(case.get('predicted'), obs['outcome'])


def judge(case, obs):
    return vdeleg.judge_vd(case, obs, PROPS)


BOUNDS = dict(trusted='delegating metadata with 2 roles of free names (<= 8 chars), 1 (quick) / 2 (thorough) free key strings (<= 66 chars) each, any int threshold (thorough: bool / binary64 too), free type (<= 8 chars), any int version, free 3-character expiration',
              untrusted='envelope whose signed part is such a document with one role (its delegations field present or absent, i.e. delegating metadata or not) and a free declared type; signature map of 1 (quick) / 2 (thorough) entries under free keys plus one junk entry of any JSON kind',
              role_name='free string <= 8 chars', mode='gpg in {True, False}')
OUTSIDE = 'more roles / keys / entries than stated; untrusted payloads that are not dictionaries; ed25519 forgeability (Valid uninterpreted)'
ASSUMPTIONS = ['A2 (Valid uninterpreted), A3 (canonical serialisation injective)', 'well-formedness of delegating metadata = the schema of C14, with datetime.strptime abstracted by IsoOK']
