"""C06 -- the declared metadata type is bound to the role by signed content alone (see harness/vdeleg.py)"""
import sys
from pysym.framework import Unit
from pysym import concrete as CC
from harness import vdeleg

ID = 'C06'
PROPS = ('C06',)


def configs(tier):
    q = tier == 'quick'
    cs = [('verify_delegation:junk', 'j2', dict(R=2, M=1, N=1, junk=True, u_timestamp=True), dict(relational=True), ('accepts', 'rejects:SignatureError', 'rejects:MetadataVerificationError'), 300)]
    if not q:
        cs.append(('verify_delegation:junk:N2', 'j22', dict(R=2, M=2, N=2, junk=True), dict(relational=True), ('accepts',), 800))
    return cs


def pre(res, tier):
    lem = []
    for name, ns, kw, extra, expect, nw in configs(tier):
        lem += vdeleg.lemma_units('vd', ns, **kw)
    vdeleg.prove_checker_lemmas(res, sys.modules[__name__], lem)


def units(tier):
    return [Unit(name, vdeleg.factory_vd(ns, PROPS, **extra, **kw), expect=expect, max_witnesses=nw) for name, ns, kw, extra, expect, nw in configs(tier)]


def concrete(case):
    if case.get('scenario') == 'lemma':
        return {}
    return vdeleg.run_vd(case)


def agrees(case, obs):
    return 'outcome' in obs and CC.same_outcome(case.get('predicted'), obs['outcome'])


def judge(case, obs):
    if case.get('scenario') == 'lemma':
        return None
    return vdeleg.judge_vd(case, obs, PROPS)


BOUNDS = dict(trusted='delegating metadata with 2 roles of free names (<= 8 chars), 1 (quick) / 2 (thorough) free key strings (<= 66 chars) each, any int threshold (thorough: bool / binary64 too), free type (<= 8 chars), any int version, free 3-character expiration',
              untrusted='envelope whose signed part is such a document with one role (its delegations field present or absent, i.e. delegating metadata or not) and a free declared type; signature map of 1 (quick) / 2 (thorough) entries under free keys; C06 and the thorough tier add one junk entry of any JSON kind',
              role_name='free string <= 8 chars', mode='gpg in {True, False}')
OUTSIDE = 'more roles / keys / entries than stated; untrusted payloads that are not dictionaries; ed25519 forgeability (Valid uninterpreted)'
ASSUMPTIONS = ['A2 (Valid uninterpreted), A3 (canonical serialisation injective)',
               'well-formedness of delegating metadata = the schema of C14 with datetime.strptime abstracted by IsoOK; the checker is replaced by that schema on a template only after `checker accepts <=> schema` was proved for that very template in the same run (lemma units), and its rejection class is then abstracted to {TypeError, ValueError}']
