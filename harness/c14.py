"""C14 -- the delegating-metadata checker enforces exactly the documented schema.

checkformat_delegating_metadata (and every validator it calls) is interpreted from source on a template
in which *every* JSON position is symbolic at once: envelope shape, signature map (free key, entry
with optional/extra fields of any kind), every `signed` field present/absent and of any JSON kind,
roles with free names, key lists with elements of any kind (duplicates possible), thresholds and
versions of any kind incl. all of binary64.  Property: accepts <=> Schema, where Schema is transcribed
from the property statement.  On every accepted document the verifiers are then run (interpreted)
and must stay inside the documented error families."""
import z3
from pysym.values import *
from pysym.interp import Interp
from pysym.tmpl import T, conc, freeze, get_slot, p_str, p_canon, p_hexeven, p_natural
from pysym.models import canon, canon_even, spec_over, alt_cases, val_eq
from pysym.hutil import *
from pysym.framework import Unit
from pysym import concrete as CC
from pysym.wire import to_wire, from_wire

ID = 'C14'
ISO = 'IsoOK:%Y-%m-%dT%H:%M:%SZ'
SUPPORTED = ('root', 'key_mgr')


def build(eng, ns, M, R, Lts=3, Loh=4, sig_slots=1):
    t = T(eng, ns=ns)

    def sigentry(name):
        sd = t.sdict(name, [('signature', t.anyjson(name + '.sig', strL=130)), ('other_headers', t.anyjson(name + '.oh', strL=Loh)),
                            ('see_also', t.anyjson(name + '.sa', strL=42)), ('zz', None)])
        return t.anyjson(name + '.v', first=[('entry', sd)])

    def role(name):
        keys = [t.anyjson(f'{name}.k{i}', first=[('key', t.str(f'{name}.k{i}.key', 66))]) for i in range(M)]
        d = t.sdict(name, [('pubkeys', t.anyjson(name + '.pk', first=[('keys', t.slist(name + '.pkl', keys))])),
                           ('threshold', t.anyjson(name + '.thr')), ('zz', None)])
        return t.anyjson(name + '.v', first=[('deleg', d)])
    dels = t.sdict('dels', [(t.str(f'r{i}', 8), role(f'role{i}')) for i in range(R)])
    signed = t.sdict('signed', [('type', t.anyjson('type', strL=8)), ('metadata_spec_version', t.anyjson('msv')),
                                ('delegations', t.anyjson('delsv', first=[('dels', dels)])),
                                ('expiration', t.anyjson('exp', strL=Lts)), ('timestamp', t.anyjson('ts', strL=Lts)),
                                ('version', t.anyjson('ver')), ('zz', t.anyjson('extra'))])
    sigs = t.sdict('sigs', [(t.str(f'sk{i}', 3), sigentry(f'sig{i}')) for i in range(sig_slots)])
    env = t.sdict('env', [('signatures', t.anyjson('sigsv', first=[('sigs', sigs)])),
                          ('signed', t.anyjson('signedv', first=[('signed', signed)])), ('zz', None)])
    md = t.anyjson('md', first=[('env', env)])
    return md, dict(env=env, sigs=sigs, signed=signed, dels=dels)


# ---------------------------------------------------------------------------
# Schema oracle, transcribed from the property statement (independent of the code)

def iso_ok(eng, v):
    """well-formed UTC time = what strptime(., '%Y-%m-%dT%H:%M:%SZ') accepts (same UF as the stub)"""
    return spec_over(v, lambda x: eng.uf(ISO, [x], lambda a, b: a.eq_sym(b)) if isinstance(x, SStr) else False)


def spec_sigentry(v):
    def entry(x):
        if not isinstance(x, SDict):
            return False
        (ps, sig), (po, oh), (pa, sa), (pz, _) = [get_slot(x, k) for k in ('signature', 'other_headers', 'see_also', 'zz')]
        sig_ok = z3.And(ps, spec_over(sig, p_canon(128)))
        raw = z3.And(sig_ok, z3.Not(po), z3.Not(pa), z3.Not(pz))
        gpg = z3.And(sig_ok, po, spec_over(oh, p_hexeven), z3.Not(pz), z3.Or(z3.Not(pa), spec_over(sa, p_canon(40))))
        return z3.Or(raw, gpg)
    return spec_over(v, entry)


def eq_str_any(a, b):
    out = []
    for ga, x in alt_cases(a):
        for gb, y in alt_cases(b):
            if isinstance(x, SStr) and isinstance(y, SStr):
                out.append(z3.And(ga, gb, x.eq_sym(y)))
    return zor(out)


def spec_deleg(v):
    def d(x):
        if not isinstance(x, SDict):
            return False
        (pp, pk), (pt, thr), (pz, _) = [get_slot(x, k) for k in ('pubkeys', 'threshold', 'zz')]

        def keys(l):
            if not isinstance(l, SList):
                return isinstance(l, list) and len(l) == 0
            conds = []
            for i, k in enumerate(l.items):
                ok = spec_over(k, p_canon(64))
                dist = zand([z3.Not(eq_str_any(k, l.items[j])) for j in range(i)])
                conds.append(z3.Implies(l.n > i, z3.And(ok, dist)))
            return zand(conds)
        return z3.And(pp, pt, z3.Not(pz), spec_over(pk, keys), spec_over(thr, p_natural))
    return spec_over(v, d)


def schema(eng, md, parts):
    env, sigs, signed, dels = parts['env'], parts['sigs'], parts['signed'], parts['dels']
    (pS, sigsv), (pD, signedv), (pz, _) = [get_slot(env, k) for k in ('signatures', 'signed', 'zz')]
    is_env = z3.And(md.tag == 0, pS, pD, z3.Not(pz))
    sigs_ok = z3.Or(z3.And(sigsv.tag == 0, zand([z3.Implies(zb(p), spec_sigentry(v)) for p, k, v in sigs.slots])),
                    spec_over(sigsv, lambda x: isinstance(x, dict) and len(x) == 0))
    f = {k: get_slot(signed, k) for k in ('type', 'metadata_spec_version', 'delegations', 'expiration', 'timestamp', 'version')}
    typ = f['type'][1]
    type_ok = z3.And(f['type'][0], spec_over(typ, lambda x: zor([x.eq_conc(s) for s in SUPPORTED]) if isinstance(x, SStr) else False))
    is_root = spec_over(typ, lambda x: x.eq_conc('root') if isinstance(x, SStr) else False)
    msv_ok = z3.And(f['metadata_spec_version'][0], spec_over(f['metadata_spec_version'][1], p_str))
    delsv = f['delegations'][1]
    dels_ok = z3.And(f['delegations'][0],
                     z3.Or(z3.And(delsv.tag == 0, zand([z3.Implies(zb(p), spec_deleg(v)) for p, k, v in dels.slots])),
                           spec_over(delsv, lambda x: isinstance(x, dict) and len(x) == 0)))
    exp_ok = z3.And(f['expiration'][0], iso_ok(eng, f['expiration'][1]))
    pts, pv = f['timestamp'][0], f['version'][0]
    tv = z3.And(z3.Or(pts, pv), z3.Implies(is_root, pv), z3.Implies(pts, iso_ok(eng, f['timestamp'][1])),
                z3.Implies(pv, spec_over(f['version'][1], p_natural)))
    signed_ok = z3.And(signedv.tag == 0, type_ok, msv_ok, dels_ok, exp_ok, tv)
    return z3.And(is_env, sigs_ok, signed_ok)


def factory(ns, M, R, sig_slots=1, verify_after=False):
    def f(eng):
        import conda_content_trust.common as c
        import conda_content_trust.authentication as A
        from harness import lemmas
        ovr = lemmas.overrides(eng)

        def harness(eng):
            md, parts = build(eng, ns, M, R, sig_slots=sig_slots)
            freeze(md)
            it = Interp(eng, ovr)
            out = run_call(it, c.checkformat_delegating_metadata, [md])
            sch = schema(eng, md, parts)
            m = path_model(eng)
            if m is None:
                return None

            def mk(mm, scenario='checker'):
                return dict(scenario=scenario, md=to_wire(conc(mm, md)), iso=iso_table(eng, mm))
            obs = []
            if is_ret(out):
                obs.append(oblige(eng, 'checker accepts only documents satisfying the schema', z3.Not(sch), mk))
            elif exc_in(out, ('TypeError', 'ValueError')):
                obs.append(oblige(eng, 'checker rejects no document satisfying the schema', sch, mk))
            else:
                obs.append(oblige(eng, 'checker rejects with TypeError/ValueError', True, mk))
            if any(e['kind'] == 'arg_mutation' for e in eng.events):
                obs.append(oblige(eng, 'checker does not modify its argument', True, mk))
            w = mk(m)
            w['predicted'] = predicted(out)
            reach = ['accepts'] if is_ret(out) else ['rejects:' + out[1]]
            return record(eng, out, obs, w, reach)
        return harness
    return f


# ---------------------------------------------------------------------------
# concrete side

def _is_hex(x, n=None):
    import re
    if not isinstance(x, str) or '\n' in x:
        return False
    pat = r'(?:[0-9a-f]{2})+' if n is None else r'[0-9a-f]{%d}' % n
    return re.fullmatch(pat, x, re.ASCII) is not None


def _natural(x):
    import math
    if isinstance(x, bool):
        return x
    if isinstance(x, int):
        return x >= 1
    if isinstance(x, float):
        return x == x and abs(x) != math.inf and int(x) == x and x >= 1
    return False


def _entry_ok(e):
    if not isinstance(e, dict) or not all(isinstance(k, str) for k in e):
        return False
    ks = set(e)
    if 'signature' not in ks or not _is_hex(e['signature'], 128):
        return False
    if ks == {'signature'}:
        return True
    return ks in ({'signature', 'other_headers'}, {'signature', 'other_headers', 'see_also'}) and _is_hex(e['other_headers']) \
        and ('see_also' not in ks or _is_hex(e['see_also'], 40))


def concrete_schema(md, iso_ok):
    if not isinstance(md, dict) or set(md) != {'signatures', 'signed'}:
        return False
    sigs, s = md['signatures'], md['signed']
    if not isinstance(sigs, dict) or not isinstance(s, dict):
        return False
    if not all(_entry_ok(v) for v in sigs.values()):
        return False
    for k in ('type', 'metadata_spec_version', 'delegations', 'expiration'):
        if k not in s:
            return False
    if not isinstance(s['type'], str) or s['type'] not in SUPPORTED or not isinstance(s['metadata_spec_version'], str):
        return False
    d = s['delegations']
    if not isinstance(d, dict):
        return False
    for name, v in d.items():
        if not isinstance(name, str) or not isinstance(v, dict) or set(v) != {'pubkeys', 'threshold'}:
            return False
        pk = v['pubkeys']
        if not isinstance(pk, list) or not all(_is_hex(k, 64) for k in pk) or len(set(pk)) != len(pk) or not _natural(v['threshold']):
            return False
    if not (isinstance(s['expiration'], str) and iso_ok(s['expiration'])):
        return False
    if 'timestamp' not in s and 'version' not in s:
        return False
    if s['type'] == 'root' and 'version' not in s:
        return False
    if 'timestamp' in s and not (isinstance(s['timestamp'], str) and iso_ok(s['timestamp'])):
        return False
    if 'version' in s and not _natural(s['version']):
        return False
    return True


def _iso_fn(table):
    import datetime

    def ok(x):
        if x in table:
            return table[x] is not False and table[x] is not None
        try:
            datetime.datetime.strptime(x, '%Y-%m-%dT%H:%M:%SZ')
            return True
        except ValueError:
            return False
    return ok


def concrete(case):
    import conda_content_trust.common as c
    md = from_wire(case['md'])
    before = to_wire(md)
    with CC.time_stub(case.get('iso')), CC.stdout_as(None):
        oc = CC.outcome_of(c.checkformat_delegating_metadata, md)
    return {'outcome': oc, 'unchanged': to_wire(md) == before}


def agrees(case, obs):
    return 'outcome' in obs and CC.same_outcome(case.get('predicted'), obs['outcome'])


def judge(case, obs):
    if 'outcome' not in obs:
        return None
    md = from_wire(case['md'])
    good = concrete_schema(md, _iso_fn(case.get('iso') or {}))
    oc = obs['outcome']
    if oc['kind'] == 'ret' and not good:
        return f'checkformat_delegating_metadata accepted a document outside the schema: {md!r:.300}'
    if oc['kind'] == 'exc' and good:
        return f'checkformat_delegating_metadata rejected ({oc["cls"]}) a document that satisfies the schema: {md!r:.300}'
    if oc['kind'] == 'exc' and not CC.documented(oc):
        return f'checkformat_delegating_metadata raised {oc["cls"]} (not TypeError/ValueError) on {md!r:.300}'
    if not obs.get('unchanged', True):
        return 'checkformat_delegating_metadata modified its argument'
    return None


def typed_factory(ns, R, M):
    """typed template with M free keys per role (so that duplicate keys under any spelling are inside): checker <=> schema"""
    from harness import dmt

    def build_env(eng):
        t = T(eng, ns=ns)
        d = dmt.dm_template(t, 'D', R=R, M=M, ver_kinds=('int', 'float'), thr_kinds=('int', 'float', 'bool'), extra_field=True)
        return d, {'signatures': {}, 'signed': d['signed']}
    def mk_case(eng, mm, desc, envelope):
        return dict(scenario='checker', md=to_wire(conc(mm, envelope)), iso=iso_table(eng, mm))
    return dmt.checker_lemma_factory(build_env, (ns, 'D'), mk_case)


def units(tier):
    if tier == 'quick':
        return [Unit('schema:M1R1', factory('s11', 1, 1), expect=('accepts', 'rejects:ValueError', 'rejects:TypeError'), max_witnesses=300),
                Unit('typed:M2R1', typed_factory('t21', 1, 2), expect=('accepts', 'rejects'), max_witnesses=100)]
    return [Unit('schema:M2R1', factory('s21', 2, 1), expect=('accepts', 'rejects:ValueError', 'rejects:TypeError'), max_witnesses=1500),
            Unit('schema:M1R2', factory('s12', 1, 2), expect=('accepts',), max_witnesses=1500),
            Unit('typed:M3R2', typed_factory('t32', 2, 3), expect=('accepts', 'rejects'), max_witnesses=300)]


BOUNDS = dict(document='envelope of any JSON kind; signature map with 1 entry under a free key of <= 3 characters, entry = dict with optional signature (<=130 chars) / other_headers (<=4) / see_also (<=42) / one extra field, or any JSON kind; '
                       'signed part of any JSON kind or a dict with each of type (<=8 chars) / metadata_spec_version / delegations / expiration / timestamp / version / one extra field present or absent and of any JSON kind',
              delegations='1 role (quick) / up to 2 roles (thorough) with free names of <= 8 characters; key lists of <= 1 (quick) / 2 (thorough) elements of any JSON kind (strings <= 66 chars); thresholds and versions: None, bool, unbounded int, all of binary64, str, list, dict',
              time_fields='strings of <= 3 characters; well-formedness is the uninterpreted predicate IsoOK (= what datetime.strptime accepts)')
OUTSIDE = 'more roles / keys / signature entries than stated; nesting below the depth of the template; time strings are abstracted by IsoOK, so strptime itself is not analysed'
ASSUMPTIONS = ['"integer >= 1" is read as an integral numeric value (True and 2.0 qualify; inf, nan and "1" do not)',
               'the schema constrains signature values, not the keys of the signature map, and permits extra fields inside the signed part',
               'datetime.strptime is the definition of a well-formed UTC time on both sides (uninterpreted IsoOK, realised from the model when a witness is replayed)']
