"""C18 -- in-place signing is all-or-nothing with respect to failures.

sign_all_in_repodata, cli_sign_artifacts and sign_root_metadata_via_gpg are interpreted on the in-memory file system
with a SYMBOLIC FAULT POINT: an integer f such that the f-th executed statement of the repository's code (or the f-th
call of sign / json.load / from_private_bytes / create_signature / export_pubkey) raises.  Obligations, per path:
  * the call failed and the target file was not yet opened for writing => the file is the initial content object;
  * no signature is computed and nothing is serialised after the target file was opened for writing (so output is
    written only after every signature has been computed and the result serialised);
  * malformed input (not JSON, missing file, sections of a wrong kind, malformed key, missing optional dependency)
    are ordinary paths of the same exploration.
Failures during the final write itself are outside the statement."""
import sys
import types
import z3
from pysym.values import *
from pysym.interp import Interp, PyExc, InjectedFault, Frame
from pysym.tmpl import T, conc
from pysym.models import canon
from pysym.stubs import FS, canon_of
from pysym.hutil import *
from pysym.framework import Unit
from pysym import concrete as CC
from pysym.wire import to_wire, from_wire
from harness import repo, c10

ID = 'C18'
KINDS = {'sign', 'json.load', 'json.dumps', 'from_private_bytes', 'create_signature', 'export_pubkey'}
SIGN_OR_SERIALISE = {'sign', 'json.dumps', 'create_signature'}


def judge_path(eng, tp, fs, out, target, initial, it=None, symb=None):
    """(list of violated obligation names, reach labels) from the event order and the final file system; obligations that
    depend on the values (the file was re-written: are the bytes the same?) are appended to symb as (name, z3 formula)"""
    bad, reach = [], []
    first_trunc = None
    fault_idx = None
    for i, e in enumerate(eng.events):
        if e['kind'] == 'truncate' and e.get('path') == target and first_trunc is None:
            first_trunc = i
        if e['kind'] == 'fault':
            fault_idx = i
        if e['kind'] in ('sign', 'serialize') and first_trunc is not None:
            bad.append(f'a signature is computed / data is serialised ({e["kind"]}) after the target file was opened for writing')
    cur = fs.files.get(target)
    unchanged = cur is initial
    differs = None
    if not unchanged and symb is not None and it is not None and cur is not None and initial is not None and cur not in (b'', ''):
        from pysym.models import bytes_eq
        try:
            differs = z3.Not(bytes_eq(it, cur, initial))       # the file was written again: same bytes?
        except Exception:
            differs = None
    fault_what = next((e['what'] for e in eng.events if e['kind'] == 'fault'), None)
    if not is_ret(out):
        reach.append('failed before output' if first_trunc is None else 'failed during output')
        name = None
        if first_trunc is None and not unchanged:
            name = 'the call failed before opening its output, yet the file content changed'
        elif not unchanged and (fault_what in SIGN_OR_SERIALISE or fault_what is None or first_trunc is None or (fault_idx is not None and fault_idx < first_trunc)):
            name = 'signing / serialisation failed after the target file had been opened for writing: a truncated or partial file is left behind' if fault_what in SIGN_OR_SERIALISE and fault_idx is not None and first_trunc is not None and fault_idx > first_trunc else 'the call failed (not while writing its output) and the file no longer holds the bytes it held before'
        if name:
            if differs is not None:
                symb.append((name, differs))
            else:
                bad.append(name)
    else:
        reach.append('succeeded')
    return bad, reach


def fault_of(eng):
    for e in eng.events:
        if e['kind'] == 'fault':
            return dict(what=e['what'], occurrence=e['occurrence'])
    return None


def repodata_factory(ns, via_cli=False, max_fault=120, **kw):
    def f(eng):
        import conda_content_trust.signing as S
        import conda_content_trust.cli as CLI
        from harness import lemmas
        ovr = lemmas.overrides(eng)

        def harness(eng):
            tp = repo.build(eng, ns, **kw)
            t = tp['t']
            fault = t.int('fault')
            eng.domain(('fault', ns), z3.And(fault.e >= 0, fault.e <= max_fault))
            it = Interp(eng, ovr)
            fs = repo.setup_fs(it, tp)
            # which alternative the file holds is part of the initial state
            root = Frame(it, repodata_factory, {}, None)
            initial = root.split(tp['content'])
            fs.files[repo.FNAME] = initial
            it.fault_kinds = KINDS
            it.fault_max = max_fault
            keytext = None
            if via_cli:
                keytext = t.str('keyfile', 66)
                # a text file read with the strict UTF-8 decoder cannot yield surrogate code points
                from pysym.models import all_chars
                from pysym import chartab as CT
                eng.add(all_chars(keytext, lambda c: z3.Not(CT.cp('surrogate', c))))
                fs.files['key.hex'] = keytext
                args = types.SimpleNamespace(repodata_fname=repo.FNAME, private_key_fname='key.hex')
                it.fault_at = fault
                out = run_call(it, CLI.cli_sign_artifacts, [args])
            else:
                it.fault_at = fault
                out = run_call(it, S.sign_all_in_repodata, [repo.FNAME, tp['key']])
            it.fault_at = None
            symb = []
            bad, reach = judge_path(eng, tp, fs, out, repo.FNAME, initial, it, symb)
            if via_cli and is_ret(out):
                # a zero / None status means "signed": then the file must have been written
                rv = out[1]
                signed = fs.files.get(repo.FNAME) is not initial
                if (rv is None or rv == 0) and not signed:
                    bad.append('sign-artifacts returned a success status without writing the signed file')
                reach.append('cli:signed' if signed else 'cli:aborted')
                if not signed and fs.files.get(repo.FNAME) is not initial:
                    bad.append('sign-artifacts aborted but the file changed')
            m = path_model(eng)
            if m is None:
                return None

            def mk(mm):
                c = repo.mk_case(eng, tp, mm, fault_of(eng))
                c['via_cli'] = via_cli
                c['probe'] = any('after the target file was opened' in b for b in bad) and fault_of(eng) is None
                if keytext is not None:
                    c['keytext'] = conc(mm, keytext)
                return c
            obs = [dict(name=b, status='sat', cex=mk(m)) for b in bad] + [oblige(eng, n_, f_, mk) for n_, f_ in symb]
            if not obs:
                obs.append(dict(name='all-or-nothing on this path: the file is untouched unless the output phase was reached after all signing and serialisation', status='unsat'))
            w = mk(m)
            w['predicted'] = predicted(out)
            return record(eng, out, obs, w, reach)
        return harness
    return f


def gpg_factory(ns, max_fault=80):
    def f(eng):
        import conda_content_trust.root_signing as RS
        from harness import lemmas

        def harness(eng):
            t = T(eng, ns=ns)
            fpr = t.str('fpr', 41)
            keyid, oh, sig, q = t.str('keyid', 42), t.str('oh', 6), t.str('sig', 130), t.str('q', 66)
            avail, fails = t.bool('sslib'), t.bool('gpgfails')
            payload = t.payload('root', dict)
            content = t.any('content', [('json', 'JSON'), ('notjson', Opaque(bytes, 'notjson', None)), ('missing', None), ('notsignable', 'NS')])
            fault = t.int('fault')
            eng.domain(('fault', ns), z3.And(fault.e >= 0, fault.e <= max_fault))
            eng.add(canon(keyid, 40), c10.canon_even(oh), canon(sig, 128), canon(q, 64))

            def create_signature(it_, fr, data, fp, *a, **k):
                it_.step('create_signature')
                it_.eng.event('sign')
                if it_.eng.fork(fails.e):
                    raise PyExc(ValueError('gpg failed (stub)'))
                return {'keyid': keyid, 'other_headers': oh, 'signature': sig}

            def export_pubkey(it_, fr, fp, *a, **k):
                it_.step('export_pubkey')
                return {'keyid': keyid, 'keyval': {'private': '', 'public': {'q': q}}}
            ovr = lemmas.overrides(eng)
            ovr[c10._create_signature] = create_signature
            ovr[c10._export_pubkey] = export_pubkey
            it = Interp(eng, ovr)
            it.shadow_globals[('conda_content_trust.root_signing', 'gpg_funcs')] = c10._GpgFuncs
            it.shadow_globals[('conda_content_trust.root_signing', 'SSLIB_AVAILABLE')] = avail
            fs = FS()
            eng.path_local['fs'] = fs
            signable = {'signatures': {}, 'signed': payload}
            content.alts[0] = ('json', canon_of(it, signable))
            content.alts[3] = ('notsignable', canon_of(it, {'signed': payload}))
            root = Frame(it, gpg_factory, {}, None)
            initial = root.split(content)
            fs.files['root.json'] = initial
            it.fault_kinds = KINDS
            it.fault_max = max_fault
            it.fault_at = fault
            out = run_call(it, RS.sign_root_metadata_via_gpg, ['root.json', fpr])
            it.fault_at = None
            bad, reach = judge_path(eng, None, fs, out, 'root.json', initial)
            m = path_model(eng)
            if m is None:
                return None
            tag = m.eval(content.tag, model_completion=True).as_long()
            mk = lambda mm: dict(scenario='gpg_sign_file', content=['json', 'notjson', 'missing', 'notsignable'][tag], payload=to_wire(conc(mm, payload)), fpr=conc(mm, fpr),
                                 keyid=conc(mm, keyid), oh=conc(mm, oh), sig=conc(mm, sig), q=conc(mm, q), avail=bool(z3.is_true(mm.eval(avail.e, model_completion=True))),
                                 fails=bool(z3.is_true(mm.eval(fails.e, model_completion=True))), fault=fault_of(eng))
            obs = [dict(name=b, status='sat', cex=mk(m)) for b in bad]
            if not bad:
                obs.append(dict(name='all-or-nothing on this path (GPG signing of a metadata file)', status='unsat'))
            w = mk(m)
            w['predicted'] = predicted(out)
            return record(eng, out, obs, w, reach)
        return harness
    return f


# ---------------------------------------------------------------------------
# concrete side: real files; faults injected with a line tracer / patched boundary functions

class _Fault(Exception):
    pass


class Injector:
    """raise _Fault when the described point is reached for the given time"""

    def __init__(self, fault):
        self.fault = fault
        self.count = 0

    def __enter__(self):
        f = self.fault
        if not f:
            return self
        what = f['what']
        if ':' in what:
            qual, line = what.rsplit(':', 1)
            line = int(line)
            target = (qual, line)
            inj = self

            def tracer(frame, event, arg):
                co = frame.f_code
                if 'conda_content_trust' not in co.co_filename:
                    return None
                if event == 'call':
                    return tracer
                if event == 'line' and frame.f_lineno == line and (co.co_qualname == qual or co.co_qualname.startswith(qual + '.<locals>.')):      # nested functions / lambdas: the model names the enclosing function
                    inj.count += 1
                    if inj.count == f['occurrence']:
                        sys.settrace(None)
                        raise _Fault(f'injected at {what}')
                return tracer
            sys.settrace(tracer)
        else:
            self.patch(what, f['occurrence'])
        return self

    def patch(self, what, occ):
        import conda_content_trust.common as C
        inj = self
        self.undo = []

        def wrap(obj, attr):
            orig = getattr(obj, attr)

            def w(*a, **k):
                inj.count += 1
                if inj.count == occ:
                    raise _Fault(f'injected at {what}')
                return orig(*a, **k)
            setattr(obj, attr, w)
            self.undo.append((obj, attr, orig))
        if what == 'json.load':
            wrap(C, 'load')
        elif what in ('json.dumps', 'json.dump'):
            import json.encoder
            orig_enc, orig_it = json.encoder.JSONEncoder.encode, json.encoder.JSONEncoder.iterencode
            state = {'in': False}

            def enc(self_, o):
                inj.count += 1
                if inj.count == occ:
                    raise _Fault(f'injected at {what}')
                state['in'] = True
                try:
                    return orig_enc(self_, o)
                finally:
                    state['in'] = False

            def itenc(self_, o, _one_shot=False):
                if not state['in']:
                    inj.count += 1
                    if inj.count == occ:
                        raise _Fault(f'injected at {what}')
                return orig_it(self_, o, _one_shot)
            json.encoder.JSONEncoder.encode, json.encoder.JSONEncoder.iterencode = enc, itenc
            self.undo.append((json.encoder.JSONEncoder, 'encode', orig_enc))
            self.undo.append((json.encoder.JSONEncoder, 'iterencode', orig_it))
        elif what in ('sign', 'from_private_bytes'):
            CC.CRYPTO.install()
            if what == 'sign':
                wrap(CC.CRYPTO.StubPriv, 'sign')
            else:
                from cryptography.hazmat.primitives.asymmetric import ed25519
                orig = ed25519.Ed25519PrivateKey.__dict__['from_private_bytes']

                def fpb(cls, data):
                    inj.count += 1
                    if inj.count == occ:
                        raise _Fault('injected at from_private_bytes')
                    return orig.__func__(cls, data)
                ed25519.Ed25519PrivateKey.from_private_bytes = classmethod(fpb)
                self.undo.append((ed25519.Ed25519PrivateKey, 'from_private_bytes', orig))

    def __exit__(self, *a):
        sys.settrace(None)
        for obj, attr, orig in getattr(self, 'undo', []):
            setattr(obj, attr, orig)
        return False


def concrete(case):
    import conda_content_trust.signing as S
    import conda_content_trust.cli as CLI
    CC.CRYPTO.install()
    CC.CRYPTO.reset()
    if case['scenario'] == 'sign_repodata':
        data = repo.concrete_repodata(case)
        files = {'repodata.json': data}
        if case.get('via_cli'):
            files['key.hex'] = case['keytext'].encode('utf-8')
        if case.get('probe'):
            # ordering counterexample: find a serialisation call whose failure leaves a modified file behind
            for k in range(1, 9):
                c2 = dict(case, probe=False, fault=dict(what='json.dumps', occurrence=k))
                o2 = concrete(c2)
                if o2['outcome']['kind'] == 'exc' and o2['before'] != o2['after']:
                    o2['probed_fault'] = c2['fault']
                    return o2
            c2 = dict(case, probe=False)
            return concrete(c2)
        with CC.temp_files(files) as paths, CC.stdout_as(None):
            p = paths['repodata.json']
            if case.get('via_cli'):
                args = types.SimpleNamespace(repodata_fname=p, private_key_fname=paths['key.hex'])
                with Injector(case.get('fault')):
                    oc = CC.outcome_of(CLI.cli_sign_artifacts, args)
            else:
                with Injector(case.get('fault')):
                    oc = CC.outcome_of(S.sign_all_in_repodata, p, case['key'])
            import os
            after = open(p, 'rb').read() if os.path.exists(p) else None
        return {'outcome': oc, 'before': data.hex() if data is not None else None, 'after': after.hex() if after is not None else None}
    if case['scenario'] == 'gpg_sign_file':
        import conda_content_trust.root_signing as RS
        import conda_content_trust.common as C
        payload = from_wire(case['payload'])
        data = {'json': lambda: CC.ref_canon({'signatures': {}, 'signed': payload}), 'notjson': lambda: b'{not json', 'missing': lambda: None,
                'notsignable': lambda: CC.ref_canon({'signed': payload})}[case['content']]()
        inj_holder = {}

        class Fake:
            n = {'create_signature': 0, 'export_pubkey': 0}

            @staticmethod
            def create_signature(d, fp, *a, **k):
                Fake.n['create_signature'] += 1
                ft = case.get('fault')
                if ft and ft['what'] == 'create_signature' and ft['occurrence'] == Fake.n['create_signature']:
                    raise _Fault('injected at create_signature')
                if case['fails']:
                    raise ValueError('gpg failed (stub)')
                return {'keyid': case['keyid'], 'other_headers': case['oh'], 'signature': case['sig']}

            @staticmethod
            def export_pubkey(fp, *a, **k):
                Fake.n['export_pubkey'] += 1
                ft = case.get('fault')
                if ft and ft['what'] == 'export_pubkey' and ft['occurrence'] == Fake.n['export_pubkey']:
                    raise _Fault('injected at export_pubkey')
                return {'keyid': case['keyid'], 'keyval': {'private': '', 'public': {'q': case['q']}}}
        old = (getattr(RS, 'gpg_funcs', None), RS.SSLIB_AVAILABLE)
        RS.gpg_funcs, RS.SSLIB_AVAILABLE = Fake, case['avail']
        try:
            with CC.temp_files({'root.json': data}) as paths, CC.stdout_as(None):
                p = paths['root.json']
                ft = case.get('fault')
                with Injector(ft if ft and ft['what'] not in ('create_signature', 'export_pubkey') else None):
                    oc = CC.outcome_of(RS.sign_root_metadata_via_gpg, p, case['fpr'])
                import os
                after = open(p, 'rb').read() if os.path.exists(p) else None
        finally:
            RS.SSLIB_AVAILABLE = old[1]
            if old[0] is None:
                try:
                    del RS.gpg_funcs
                except Exception:
                    pass
            else:
                RS.gpg_funcs = old[0]
        return {'outcome': oc, 'before': data.hex() if data is not None else None, 'after': after.hex() if after is not None else None}
    raise ValueError(case['scenario'])


def agrees(case, obs):
    if 'outcome' not in obs:
        return False
    if case.get('probe'):
        return True
    p, oc = case.get('predicted'), obs['outcome']
    if p and p['kind'] == 'exc' and p.get('cls') == 'InjectedFault':
        return oc['kind'] == 'exc' and oc['cls'] == '_Fault'
    return CC.same_outcome(p, oc)


def judge(case, obs):
    if 'outcome' not in obs:
        return None
    oc = obs['outcome']
    if oc['kind'] == 'exc' and obs['before'] != obs['after']:
        ft = obs.get('probed_fault') or case.get('fault')
        return (f'{"sign-artifacts" if case.get("via_cli") else case["scenario"]} failed with {oc["cls"]}'
                + (f' (fault injected at {ft["what"]}, occurrence {ft["occurrence"]})' if ft else '') + ' and left a modified file behind: the operation is not all-or-nothing')
    if case.get('via_cli') and oc['kind'] == 'ret':
        v = from_wire(oc['value'])
        if (v is None or v == 0) and obs['before'] == obs['after']:
            return 'sign-artifacts reported success (status 0) although the file was not signed'
    return None


def units(tier):
    q = tier == 'quick'
    return [Unit('sign_all_in_repodata+fault', repodata_factory('f1', A=1, B=1, wrong_kinds=True, meta_kinds=False, spellings=True), expect=('succeeded', 'failed before output'), max_witnesses=150 if q else 600),
            Unit('cli_sign_artifacts+fault', repodata_factory('f2', via_cli=True, A=1, B=0, wrong_kinds=False, meta_kinds=False), expect=('cli:signed', 'cli:aborted', 'failed before output'), max_witnesses=100 if q else 400),
            Unit('sign_root_metadata_via_gpg+fault', gpg_factory('f3'), expect=('succeeded', 'failed before output'), max_witnesses=100 if q else 400)]


BOUNDS = dict(fault_point='symbolic: any executed statement of the repository code (<= 120 steps cover every path of these templates) or any call of sign / json.load / from_private_bytes / create_signature / export_pubkey',
              inputs='repodata as in C11 with one artifact per section (sections present / absent / of a wrong kind), file canonical JSON / the same JSON in a non-canonical spelling (trailing newline) / not JSON / missing, key any string <= 66 characters; sign-artifacts: key file text any string <= 66 characters; GPG path: file holds a signable / is not JSON / is missing / lacks the signatures field, library available or not, gpg call failing or not')
OUTSIDE = 'failures during the final write itself (excluded by the statement); faults inside library code below the stubbed boundary; more artifacts'
ASSUMPTIONS = ['opening a file for writing truncates it at open time (file-system stub)', 'an injected fault is an exception that only bare except / except Exception handlers catch']
