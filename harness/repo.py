"""Shared harness for in-place repodata signing (C11, C18): sign_all_in_repodata on the in-memory file system.

File content = canonical bytes of a repodata template (packages / packages.conda with <= 2 artifacts of free names and
opaque JSON metadata each, optional stale signatures section, optional extra top-level field, each section present or
absent or of a wrong kind), or bytes that are not JSON, or a missing file; key = free 66-character string.
C18 adds a symbolic fault point: the f-th executed statement / stub call raises."""
import z3
from pysym.values import *
from pysym.interp import Interp, PyExc, InjectedFault
from pysym.tmpl import T, conc, freeze
from pysym.models import val_eq, bytes_eq, canon, mk_hex_bytes, contains, getitem, clone
from pysym.stubs import canon_of, json_eq, public_of, FS, valid
from pysym import stubs
from pysym.hutil import *
from pysym import concrete as CC
from pysym.wire import to_wire, from_wire

FNAME = 'repodata.json'


def build(eng, ns, A=2, B=1, wrong_kinds=True, meta_kinds=True, spellings=False, num_kinds=False):
    t = T(eng, ns=ns)
    arts = []

    def metadata(nm):
        # JSON object; differs between artifacts iff the numbers differ as JSON values (1 and true are == in Python, not in JSON)
        bn = t.any(nm + '.bn', [('int', t.int(nm + '.i')), ('bool', t.bool(nm + '.ib'))]) if num_kinds else t.int(nm + '.i')
        d = {'build_number': bn, 'depends': ['python']}
        if not meta_kinds or (meta_kinds == 'conda' and not nm.startswith('packages.conda')):
            return d
        # "any JSON metadata per artifact": also bare booleans, numbers, strings, null, arrays
        return t.any(nm, [('object', d), ('bool', t.bool(nm + '.b')), ('int', t.int(nm + '.n')), ('str', t.str(nm + '.s', 2)), ('null', None), ('array', [t.int(nm + '.a')])])

    def section(name, n):
        slots = []
        for i in range(n):
            nm = t.str(f'{name}.n{i}', 3)
            md = metadata(f'{name}.m{i}')
            slots.append((nm, md))
            arts.append(dict(section=name, name=nm, meta=md, idx=i))
        return t.sdict(name, slots)
    pk = section('packages', A)
    pc = section('packages.conda', B)
    for a in arts:
        sd = pk if a['section'] == 'packages' else pc
        a['present_in_section'] = zb(sd.slots[a['idx']][0])
    stale_key, stale_sig = t.str('stale.k', 66), t.str('stale.s', 130)
    stale = t.sdict('stale', [(t.str('stale.n', 3), t.sdict('stale.e', [(stale_key, {'signature': stale_sig})], optional=False))])
    pkv = t.any('packagesv', [('dict', pk), ('list', []), ('none', None)]) if wrong_kinds else pk
    pcv = t.any('packages.condav', [('dict', pc), ('list', []), ('none', None)]) if wrong_kinds else pc
    doc = t.sdict('doc', [('packages', pkv), ('packages.conda', pcv), ('signatures', stale), ('info', t.payload('info', dict))])
    # artifact names are distinct across the two sections (the property's precondition)
    cons = []
    for a in arts:
        for b in arts:
            if a['section'] == 'packages' and b['section'] == 'packages.conda':
                cons.append(z3.Not(a['name'].eq_sym(b['name'])))
    if cons:
        eng.domain(('distinct', ns), z3.And(cons))
    key = t.str('keyhex', 66)
    # 'jsonnl': the same document in a non-canonical spelling (canonical bytes + a trailing newline, what most tools emit)
    content = t.any('content', [('json', 'JSON'), ('notjson', Opaque(bytes, 'notjson', None)), ('missing', None)] + ([('jsonnl', 'JSONNL')] if spellings else []))
    return dict(doc=doc, pk=pk, pc=pc, pkv=pkv, pcv=pcv, arts=arts, key=key, content=content, t=t, stale_key=stale_key)


def setup_fs(it, tp):
    # the signer's public key hex (so that a stale entry may be filed under exactly that key)
    from pysym.models import hex_view
    sk0 = KeyObj(raw=mk_hex_bytes(it, tp['key']), private=True)
    tp['pubhex0'] = hex_view(it, public_of(it, sk0).raw)
    fs = FS()
    it.eng.path_local['fs'] = fs
    doc_bytes = canon_of(it, tp['doc'])
    c = tp['content']
    c.alts[0] = ('json', doc_bytes)
    if len(c.alts) > 3:
        c.alts[3] = ('jsonnl', SBytes('cat', parts=[doc_bytes, b'\n'], ws_suffix=True))
    fs.files[FNAME] = c
    tp['initial'] = c
    tp['doc_bytes'] = doc_bytes
    return fs


def present_art(tp, a):
    """artifact a is listed in the document (its section is a dict and present, the slot present)"""
    doc = tp['doc']
    idx = 0 if a['section'] == 'packages' else 1
    sec_present = zb(doc.slots[idx][0])
    v = tp['pkv'] if a['section'] == 'packages' else tp['pcv']
    is_dict = (v.tag == 0) if isinstance(v, SAny) else z3.BoolVal(True)
    return z3.And(sec_present, is_dict, a['present_in_section'])


def events_order(eng):
    """(index of first truncate, indices of sign / serialize events) in the event list"""
    first_trunc = None
    later = []
    for i, e in enumerate(eng.events):
        if e['kind'] == 'truncate' and e.get('path') == FNAME and first_trunc is None:
            first_trunc = i
        elif e['kind'] in ('sign', 'serialize') and first_trunc is not None:
            later.append((i, e['kind']))
    return first_trunc, later


def file_state(it, tp, fs):
    """('unchanged' | 'written' | 'clobbered', content)"""
    cur = fs.files.get(FNAME)
    if cur is tp['initial']:
        return 'unchanged', cur
    return 'changed', cur


def concrete_repodata(case):
    """materialise the initial file for a replay: returns bytes or None (missing)"""
    import conda_content_trust.common as C
    if case['content'] == 'missing':
        return None
    if case['content'] == 'notjson':
        return b'{not json'
    if case['content'] == 'jsonnl':
        return concrete_repodata(dict(case, content='json')) + b'\n'
    doc = from_wire(case['doc'])
    if case.get('stale_is_signer') and isinstance(doc.get('signatures'), dict):
        # the model filed the stale entry under the signer's own public key: use the real one
        import re
        from cryptography.hazmat.primitives.asymmetric import ed25519
        from cryptography.hazmat.primitives import serialization as Z
        if re.fullmatch('[0-9a-f]{64}', case['key'] or ''):
            pub = ed25519.Ed25519PrivateKey.from_private_bytes(bytes.fromhex(case['key'])).public_key().public_bytes(Z.Encoding.Raw, Z.PublicFormat.Raw).hex()
            for name, ent in doc['signatures'].items():
                if isinstance(ent, dict) and case['stale_key'] in ent:
                    ent[pub] = ent.pop(case['stale_key'])
    return CC.ref_canon(doc)


def mk_case(eng, tp, m, fault=None):
    tag = m.eval(tp['content'].tag, model_completion=True).as_long()
    stale_is_signer = bool(z3.is_true(m.eval(tp['stale_key'].eq_sym(tp['pubhex0']), model_completion=True))) if 'pubhex0' in tp else False
    return dict(scenario='sign_repodata', content=['json', 'notjson', 'missing', 'jsonnl'][tag], doc=to_wire(conc(m, tp['doc'])), key=conc(m, tp['key']),
                stale_key=conc(m, tp['stale_key']), stale_is_signer=stale_is_signer, fault=fault)
