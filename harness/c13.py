"""C13 -- failures are fail-closed and use the documented error families.

(1) Every public validator of common.py and the two single-signature primitives are executed symbolically on a
generic nested value: at each position any JSON kind (None, bool, unbounded int, binary64 incl. inf/nan, free
string, list, dict carrying any subset of the field names the validators look for plus a free key) or a concrete
type-confusion value (bytes, tuple, object(), complex, set, timedelta, key objects); the outcome must be a return
or TypeError / ValueError / the library hierarchy (+ InvalidSignature for the two primitives).
(2) The three verifiers are executed on their templates (harness/vsign.py, harness/vdeleg.py) with arguments of any
kind; rejections must be documented errors, and insufficient signatures / an undelegated role / a type or version
mismatch on well-formed arguments must be SignatureError / UnknownRoleError / MetadataVerificationError."""
import sys
import z3
from pysym.values import *
from pysym.interp import Interp
from pysym.tmpl import T, conc, freeze, EXOTIC
from pysym.hutil import *
from pysym.framework import Unit
from pysym import concrete as CC
from pysym.wire import to_wire, from_wire, Exotic
from harness import vsign, vdeleg, c15

ID = 'C13'
PROPS = ('C13',)
FIELDS = ('signatures', 'signed', 'signature', 'other_headers', 'see_also', 'pubkeys', 'threshold', 'type',
          'metadata_spec_version', 'delegations', 'expiration', 'timestamp', 'version')
VALIDATORS = ['is_hex_string', 'checkformat_hex_string', 'is_hex_signature', 'is_hex_key', 'is_signable', 'checkformat_signable',
              'checkformat_byteslike', 'checkformat_natural_int', 'checkformat_string', 'checkformat_expiration_distance',
              'checkformat_hex_key', 'checkformat_list_of_hex_keys', 'checkformat_utc_isoformat', 'is_gpg_fingerprint',
              'checkformat_gpg_fingerprint', 'is_gpg_signature', 'checkformat_gpg_signature', 'is_signature', 'checkformat_signature',
              'checkformat_delegation', 'checkformat_delegations', 'checkformat_delegating_metadata', 'checkformat_any_signature',
              'checkformat_key']


ENTRY = ('signature', 'other_headers', 'see_also')
DELEG = ('pubkeys', 'threshold')
SIGNED = ('type', 'metadata_spec_version', 'delegations', 'expiration', 'timestamp', 'version')
FIELDSPEC = {      # field names of the dict alternative per nesting level (a free key is always added)
    'is_gpg_signature': [ENTRY], 'checkformat_gpg_signature': [ENTRY], 'is_signature': [ENTRY], 'checkformat_signature': [ENTRY],
    'checkformat_any_signature': [ENTRY], 'checkformat_delegation': [DELEG], 'checkformat_delegations': [(), DELEG],
    'is_signable': [('signatures', 'signed'), ()], 'checkformat_signable': [('signatures', 'signed'), ()],
    'checkformat_delegating_metadata': [('signatures', 'signed'), SIGNED + ENTRY, DELEG + ('root',)],
}


def deep_any(t, name, depth, strL=2, fields=FIELDS, spec=None):
    if spec is not None:
        fields = spec[0] if spec else ()
        sub = spec[1:] if len(spec) > 1 else [()]
    else:
        sub = None
    leafs = t.json_leafs(name, strL, c15.exotic_pool((2,)))
    leafs = [a for a in leafs if a[0] not in ('list', 'dict')]
    alts = list(leafs) + [('emptylist', []), ('emptydict', {})]
    alts.append(('pubkey', KeyObj(raw=SBytes('keyraw', kid=z3.Int(t.ns + name + '#kid')), private=False)))
    if depth > 0:
        items = [deep_any(t, f'{name}[{i}]', depth - 1, strL, fields, sub) for i in range(2)]
        alts.append(('list', t.slist(name + '.l', items)))
        slots = [(k, deep_any(t, f'{name}.{k}', depth - 1, strL, fields, sub)) for k in fields]
        slots.append((t.str(name + '.fk', 2), deep_any(t, name + '.fv', depth - 1, strL, fields, sub)))
        alts.append(('dict', t.sdict(name + '.d', slots)))
    return t.any(name, alts)


def validator_factory(fname, depth):
    def f(eng):
        import conda_content_trust.common as c
        from harness import lemmas
        ovr = lemmas.overrides(eng)

        def harness(eng):
            t = T(eng, ns='val_' + fname)
            x = deep_any(t, 'x', depth, spec=FIELDSPEC.get(fname, [()]))
            freeze(x)
            it = Interp(eng, ovr)
            out = run_call(it, getattr(c, fname), [x])
            m = path_model(eng)
            if m is None:
                return None
            mk = lambda mm: dict(scenario='call', func='conda_content_trust.common:' + fname, args=[to_wire(conc(mm, x))], env=dict(iso=iso_table(eng, mm)))
            obs = []
            if not is_ret(out) and not documented(out):
                obs.append(oblige(eng, f'{fname} rejects with a documented error family', True, mk))
            elif is_ret(out) and fname.startswith('is_') and not isinstance(out[1], (bool, SBool)):
                obs.append(oblige(eng, f'{fname} returns a bool', True, mk))
            else:
                obs.append(dict(name=f'{fname}: outcome inside the documented families on this path', status='unsat'))
            w = mk(m)
            w['predicted'] = predicted(out)
            return record(eng, out, obs, w, ['returns'] if is_ret(out) else ['raises:' + out[1]])
        return harness
    return f


def primitive_factory(which):
    """verify_signature(signature, public_key, data) / verify_gpg_signature(signature, key_value, data) with any arguments"""
    def f(eng):
        import conda_content_trust.authentication as A
        from harness import lemmas
        ovr = lemmas.overrides(eng)

        def harness(eng):
            t = T(eng, ns='prim_' + which)
            data = t.any('data', [('bytes', t.raw_bytes('data.b', 4)), ('canon', None)] + t.json_leafs('data', 2, c15.exotic_pool(())))
            payload = t.payload('p', dict)
            if which == 'verify_signature':
                sig = t.any('sig', [('s', t.str('sig.s', 130))] + t.json_leafs('sigv', 2, c15.exotic_pool((128,))))
                key = t.any('key', [('pub', KeyObj(raw=SBytes('keyraw', kid=z3.Int(t.ns + 'k#kid')), private=False)),
                                    ('priv', KeyObj(raw=SBytes('keyraw', kid=z3.Int(t.ns + 'k2#kid')), private=True)),
                                    ('hex', t.str('key.s', 66))] + t.json_leafs('keyv', 2, EXOTIC))
                args = [sig, key, data]
            else:
                entry = deep_any(t, 'entry', 1, strL=2, spec=[ENTRY])
                good = t.sdict('good', [('signature', t.str('g.sig', 130)), ('other_headers', t.str('g.oh', 4)), ('see_also', t.str('g.sa', 42))])
                good.slots[0][0] = True
                good.slots[1][0] = True
                sig = t.any('sigentry', [('wellformed', good), ('any', entry)])
                key = t.any('key', [('hex', t.str('key.s', 66))] + t.json_leafs('keyv', 2, c15.exotic_pool((64,))))
                args = [sig, key, data]
            it = Interp(eng, ovr)
            # the 'canon' alternative of data: canonical bytes of an opaque payload
            from pysym.stubs import canon_of
            data.alts[1] = ('canon', canon_of(it, payload))
            out = run_call(it, getattr(A, which), args)
            m = path_model(eng)
            if m is None:
                return None

            def mk(mm):
                def cv(v):
                    v2 = it_split_conc(mm, v)
                    return to_wire(v2)
                return dict(scenario='primitive', func=which, args=[cv(a) for a in args], env=dict(valid=vsign.valid_table(eng, mm)))

            def it_split_conc(mm, v):
                if isinstance(v, SAny):
                    v = v.alts[mm.eval(v.tag, model_completion=True).as_long()][1]
                if isinstance(v, SBytes) and v.kind == 'canon':
                    from conda_content_trust.common import canonserialize
                    return canonserialize(conc(mm, v.value))
                return conc(mm, v)
            obs = []
            if not is_ret(out) and not documented(out, extra=('InvalidSignature',)):
                obs.append(oblige(eng, f'{which} rejects with a documented error family or InvalidSignature', True, mk))
            else:
                obs.append(dict(name=f'{which}: outcome inside the documented families on this path', status='unsat'))
            w = mk(m)
            w['predicted'] = predicted(out)
            return record(eng, out, obs, w, ['returns'] if is_ret(out) else ['raises:' + out[1]])
        return harness
    return f


VD_CFG = dict(R=2, M=1, N=1, junk=True, name_any=True, modes=(True, False, 1, None, 'x'))
VR_CFG = dict(R=2, M=1, N=1, ver_kinds=('int', 'float'), ver_kinds_U=('int', 'bool'), thr_kinds=('int', 'float'))


def pre(res, tier):
    lem = vdeleg.lemma_units('vd', 'c13d', **VD_CFG) + vdeleg.lemma_units('vr', 'c13r', **VR_CFG)
    lem += vdeleg.lemma_units('vd', 'c13ia', R=1, M=1, N=1, junk=False) + vdeleg.lemma_units('vd', 'c13ib', R=1, M=1, N=1, junk=False)
    vdeleg.prove_checker_lemmas(res, sys.modules[__name__], lem)


def units(tier):
    q = tier == 'quick'
    depth = 1 if q else 2
    us = [Unit('validator:' + f, validator_factory(f, depth), max_witnesses=60 if q else 300, expect=()) for f in VALIDATORS]
    us.append(Unit('verify_signature', primitive_factory('verify_signature'), max_witnesses=120, expect=('returns', 'raises:TypeError', 'raises:InvalidSignature')))
    us.append(Unit('verify_gpg_signature', primitive_factory('verify_gpg_signature'), max_witnesses=200, expect=('returns', 'raises:InvalidSignature')))
    us.append(Unit('verify_signable', vsign.factory('c13s', PROPS, N=1, M=1 if q else 2, Loh=4, rich=not q, junk=True, any_args=True,
                                                    thr_kinds=('int', 'bool', 'float', 'none', 'str', 'list'), modes=(True, False, None, 'x') if q else (True, False, 1, 0, None, 'x')),
                   max_witnesses=300, expect=('accepts', 'rejects:SignatureError', 'rejects:TypeError')))
    # signed content whose well-known members (which a verifier might look at) are of any JSON kind
    odd = lambda t: t.sdict('pl', [('metadata_spec_version', t.anyjson('msv', strL=3)), ('type', t.str('ptype', 3)), ('rest', t.payload('rest', dict))])
    us.append(Unit('verify_signable:odd members', vsign.factory('c13o', PROPS, N=1, M=1, Loh=2, junk=False, thr_kinds=('int',), modes=(False,), payload=odd),
                   max_witnesses=100, expect=('accepts', 'rejects:SignatureError')))
    us.append(Unit('verify_delegation', vdeleg.factory_vd('c13d', PROPS, **VD_CFG), max_witnesses=300,
                   expect=('accepts', 'rejects:UnknownRoleError', 'rejects:MetadataVerificationError', 'rejects:SignatureError', 'rejects:TypeError')))
    us.append(Unit('verify_delegation: trusted object reused, then broken', vdeleg.factory_vd_inplace('c13i', ('C05',), then_break=True, R=1, M=1, N=1, junk=False), max_witnesses=60, expect=('A/R', 'R/A', 'R/R')))
    us.append(Unit('verify_root', vdeleg.factory_vr('c13r', PROPS, **VR_CFG), max_witnesses=300,
                   expect=('accepts', 'rejects:MetadataVerificationError', 'rejects:SignatureError', 'rejects:ValueError')))
    return us


def concrete(case):
    sc = case.get('scenario')
    if sc == 'lemma':
        return {}
    if sc == 'call':
        return CC.generic_call(case)
    if sc == 'primitive':
        import conda_content_trust.authentication as A
        CC.setup_valid_table(case.get('env', {}).get('valid', []))
        args = [from_wire(a, CC.mk_key) for a in case['args']]
        with CC.stdout_as(None):
            return {'outcome': CC.outcome_of(getattr(A, case['func']), *args)}
    if sc == 'verify_signable':
        return vsign.run_verify_signable(case)
    if sc == 'verify_delegation':
        return vdeleg.run_vd(case)
    if sc == 'vd_inplace':
        return vdeleg.run_vd_inplace(case)
    if sc == 'verify_root':
        return vdeleg.run_vr(case)
    raise ValueError(sc)


def agrees(case, obs):
    if case.get('scenario') == 'vd_inplace':
        return 'outcomes' in obs and all(CC.same_outcome(p, o) for p, o in zip(case['predicted'], obs['outcomes']))
    return 'outcome' in obs and CC.same_outcome(case.get('predicted'), obs['outcome'])


def judge(case, obs):
    sc = case.get('scenario')
    if sc == 'vd_inplace':
        return vdeleg.judge_vd_inplace(case, obs, ('C05',))
    if sc == 'lemma' or 'outcome' not in obs:
        return None
    oc = obs['outcome']
    if sc in ('call', 'primitive'):
        extra = ('InvalidSignature',) if sc == 'primitive' else ()
        if oc['kind'] == 'exc' and not CC.documented(oc, extra):
            return f'{case["func"]} raised {oc["cls"]} ({oc["msg"]:.100}), which is outside the documented error families, on arguments {from_wire(case["args"])!r:.300}'
        return None
    if sc == 'verify_signable':
        return vsign.judge_verify_signable(case, obs, PROPS)
    if sc == 'verify_delegation':
        return vdeleg.judge_vd(case, obs, PROPS)
    if sc == 'verify_root':
        return vdeleg.judge_vr(case, obs, PROPS)
    return None


BOUNDS = dict(validators='each of the 24 public validators of common.py on a value nested to depth 1 (quick) / 2 (thorough): at each position None, bool, unbounded int, binary64 (NaN, +-inf, |x| < 2**62), string <= 2 characters over all of Unicode, list of <= 2 such values, dict with any subset of the 13 field names the validators look for plus one free key, or a concrete type-confusion value (bytes, bytearray, char list/tuple, dict/set of hex chars, tuple, object(), complex, set, timedelta, a key object)',
              primitives='verify_signature / verify_gpg_signature with signature, key and data arguments of any of these kinds (signature strings <= 130, key strings <= 66 characters, symbolic data bytes <= 4 or the canonical bytes of an opaque payload)',
              verifiers='verify_signable with envelope / key list / threshold / mode of any kind; verify_delegation with role name and mode of any kind; verify_root; on the typed templates of C01 / C05 / C03')
OUTSIDE = 'termination is observed on the bounded templates only (all loops range over the inputs); Python values outside the pool (e.g. objects with hostile __eq__/__hash__), deeper nesting, recursion-limit effects'
ASSUMPTIONS = ['documented families = CCT_Error hierarchy, TypeError, ValueError (+ cryptography InvalidSignature for verify_signature / verify_gpg_signature)', 'A2, A3, checker lemma as in C03/C05']
