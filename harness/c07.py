"""C07 -- canonical serialisation: deterministic, order-independent, injective, frozen.

canonserialize is a single call into CPython's json codec; the property is about that call's result.  This is decided
with Engine B: CrossHair executes the real canonserialize (with its symbolic-capable model of the json encoder) on
bounded symbolic JSON values and searches for a value on which it differs from an independent reference serialiser
written from the published format (xhair/ref.py, injective by construction), for two insertion orders that serialise
differently, for two different values that serialise equally, and for a value that does not survive parse-then-
serialise.  CrossHair never exhausts the paths of a condition containing a string, so this is a TIME-BUDGETED
COUNTEREXAMPLE SEARCH (exploration), not a bounded proof; conditions it does confirm over all paths are reported as such.
Hash seed, locale, time zone, working directory and process identity are not solver variables: nothing is claimed
about them beyond the fact that the search runs with PYTHONHASHSEED=0 in fresh processes."""
import sys
from pysym.framework import Unit

ID = 'C07'
LEVEL = 'exploration'
NEEDS_LEMMAS = False


def units(tier):
    return []


def post(res, tier):
    from xhair import run as X
    budget = 30 if tier == 'quick' else 300
    results = X.run_conditions(res, 'xhair/c07_conditions.py', budget=budget, module=sys.modules[__name__])
    n = sum(r['paths'] for r in results)
    res.extra.update(evaluations=n, distinct_nontrivial=n,
                     rule='one evaluation = one CrossHair iteration = one distinct symbolic path through the real canonserialize / json encoder (distinct path condition) on the bounded inputs of a condition; every such path executes the serializer and the comparison with the reference, so each is non-trivial',
                     per_condition_budget_s=budget)


def concrete(case):
    from xhair import run as X
    return X.replay(case['file'], (case['function'], case['args']))


def agrees(case, obs):
    return True


def judge(case, obs):
    if obs.get('result') is False or 'raised' in obs:
        return f'{case["function"]}({case["args"][:200]}) fails on the real canonserialize: {obs}'
    return None


BOUNDS = dict(strings='<= 3 characters over all code points incl. lone surrogates', numbers='any int; any binary64 (realised concretely by CrossHair, so float repr is sampled, not decided)',
              containers='lists of <= 2 leaves with one nesting level; dicts of <= 2 entries with keys <= 2 characters in both insertion orders, one nesting level',
              budget='30 s (quick) / 300 s (thorough) of CrossHair search per condition, 12 conditions in parallel')
OUTSIDE = 'hash seed, locale, time zone, working directory, process identity (configurations are not solver variables); float formatting and big integers are concretised; CrossHair analyses its own copy of the pure-Python encoder, the C accelerator is reached only by the replay; larger values'
ASSUMPTIONS = ['the reference serialiser xhair/ref.py transcribes the published format: UTF-8 of ASCII-escaped JSON, keys sorted by code point, two-space indentation, "," and ": " separators, repr floats, NaN/Infinity']
