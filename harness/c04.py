"""C04 -- root chain integrity over arbitrary histories of offered updates.

Three obligations (DESIGN.md section 5, C04):
 1. inductive step from an ARBITRARY trusted root: verify_root(T, U) returns => U is well-formed root metadata
    delegating root (the invariant), version(U) = version(T) + 1, and U carries >= threshold(T) valid signatures of
    distinct keys of T's root delegation (same encoding as C03; no history is enumerated);
 2. the verdict on an offer is a function of (trusted root, offer) only: a two-offer history U1, U2 against an
    evolving trusted root, executed in ONE interpreter state (module-level state written during the first call
    is visible to the second), where the signature strings of both offers are free and may coincide while the
    signed contents differ; each verdict must satisfy the single-call characterisation.  The thorough tier also
    persists the accepted root through write_metadata_to_file / load_metadata_from_file (file-system stub, A3);
 3. base: the invariant is satisfiable (reachability witness) -- construction of such roots is C16."""
import sys
import z3
from pysym.values import *
from pysym.interp import Interp
from pysym.tmpl import T, conc, freeze
from pysym.hutil import *
from pysym.framework import Unit
from pysym import concrete as CC
from pysym.wire import to_wire, from_wire
from harness import vdeleg, vsign, dmt

ID = 'C04'
PROPS = ('C04',)


def build2(eng, ns, persist=False, ver_kinds=('int',)):
    t = T(eng, ns=ns)
    T0 = dmt.dm_template(t, 'T0', R=1, M=1, ver_kinds=ver_kinds)
    offers = []
    for i in (1, 2):
        t2 = T(eng, ns=f'{ns}.o{i}')
        Ud = dmt.dm_template(t2, 'U', R=1, M=1, ver_kinds=ver_kinds)
        sigs, real = vsign.make_sigs(t2, 1, Loh=2, junk=False)
        Um = {'signatures': sigs, 'signed': Ud['signed']}
        tp = dict(U=Ud, Um=Um, sigs=sigs, real=real)
        dmt.attach(Ud, Um, vdeleg.sig_entries_wf(tp), (ns, f'U{i}'))
        offers.append(tp)
    T0m = {'signatures': {}, 'signed': T0['signed']}
    dmt.attach(T0, T0m, None, (ns, 'T0'))
    enc = t.int('stdout_enc')
    eng.domain(('enc', ns), z3.And(enc.e >= 0, enc.e <= 2))
    return dict(T0=T0, T0m=T0m, offers=offers, enc=enc, persist=persist)


def factory2(ns, **kw):
    def f(eng):
        import conda_content_trust.authentication as A
        import conda_content_trust.common as C
        from harness import lemmas
        from pysym import stubs
        ovr = lemmas.overrides(eng)
        ovr.update(dmt.checker_override())

        def harness(eng):
            tp = build2(eng, ns, **kw)
            for o in tp['offers']:
                freeze(o['Um'])
            freeze(tp['T0m'])
            eng.path_local['stdout_enc'] = tp['enc']
            eng.path_local['fs'] = stubs.FS()
            it = Interp(eng, ovr)
            cur_d, cur_m, cur_sigwf = tp['T0'], tp['T0m'], None
            outs, oracles, trusted = [], [], []
            for i, o in enumerate(tp['offers']):
                o['enc'] = tp['enc']
                out = run_call(it, A.verify_root, [cur_m, o['Um']])
                orc = vdeleg.oracle_vr(it, o, Td=cur_d, wfT_sigs=cur_sigwf)
                outs.append(out)
                oracles.append(orc)
                trusted.append(cur_m)
                if is_ret(out):
                    cur_d, cur_m, cur_sigwf = o['U'], o['Um'], vdeleg.sig_entries_wf(o)
                    if tp['persist']:
                        w = run_call(it, C.write_metadata_to_file, [cur_m, 'trusted_root.json'])
                        l = run_call(it, C.load_metadata_from_file, ['trusted_root.json'])
                        if not is_ret(w) or not is_ret(l):
                            raise Unsupported('persisting the trusted root raised in the harness')
                        loaded = l[1]
                        # A3: the loaded value equals the written one; keep template descriptors for the lemma and the oracle
                        loaded['signed'].dm_desc = o['U']
                        loaded['signed'].canon_tok = o['U']['signed'].canon_tok
                        loaded['signed'].canon_stamp = stubs.struct_stamp(loaded['signed'])
                        cur_m = loaded
            m = path_model(eng)
            if m is None:
                return None

            def mk(mm):
                enc = mm.eval(tp['enc'].e, model_completion=True).as_long()
                return dict(scenario='history', T0=to_wire(conc(mm, tp['T0m'])), offers=[to_wire(conc(mm, o['Um'])) for o in tp['offers']], persist=tp['persist'],
                            env=dict(valid=vsign.valid_table(eng, mm), iso=iso_table(eng, mm), stdout_enc=vsign.ENC_NAMES[enc]))
            obs = []
            for i, (out, orc) in enumerate(zip(outs, oracles)):
                if is_ret(out):
                    obs.append(oblige(eng, f'offer {i + 1} accepted => it is the well-formed successor of the root trusted at that point, signed by a threshold of ITS root keys (whatever was offered before)',
                                      z3.Not(orc['accept_lib']), mk))
                else:
                    obs.append(oblige(eng, f'offer {i + 1}: a properly signed successor is accepted whatever was offered before', orc['accept_strict'], mk))
            w = mk(m)
            w['predicted'] = [predicted(o) for o in outs]
            reach = ['first:' + ('accepts' if is_ret(outs[0]) else 'rejects'), 'second:' + ('accepts' if is_ret(outs[1]) else 'rejects')]
            if is_ret(outs[0]) and is_ret(outs[1]):
                reach.append('chain of two')
            return record(eng, outs[1], obs, w, reach, okey_='/'.join(okey(o) for o in outs))
        return harness
    return f


def lemma_units2(ns, **kw):
    def env_of(which):
        def b(eng):
            tp = build2(eng, ns, **kw)
            if which == 'T0':
                return tp['T0'], tp['T0m']
            o = tp['offers'][int(which[1]) - 1]
            return o['U'], o['Um']
        return b
    return [Unit(f'lemma:checker:{ns}:{w}', dmt.checker_lemma_factory(env_of(w), (ns, w)), expect=('accepts', 'rejects')) for w in ('T0', 'U1', 'U2')]


def configs(tier):
    q = tier == 'quick'
    return [('step', 's1', dict(R=2, M=1, N=1, ver_kinds=('int', 'float'), ver_kinds_U=('int', 'bool')) if q else dict(R=2, M=2, N=2, thr_kinds=('int', 'bool', 'float')))]


def pre(res, tier):
    lem = []
    for name, ns, kw in configs(tier):
        lem += vdeleg.lemma_units('vr', ns, **kw)
    lem += lemma_units2('h2', persist=(tier != 'quick'))
    vdeleg.prove_checker_lemmas(res, sys.modules[__name__], lem)


def units(tier):
    us = [Unit('inductive-step', vdeleg.factory_vr(ns, PROPS, **kw), expect=('accepts', 'rejects:MetadataVerificationError', 'rejects:SignatureError'), max_witnesses=200)
          for name, ns, kw in configs(tier)]
    us.append(Unit('two-offer history', factory2('h2', persist=(tier != 'quick')), expect=('chain of two', 'first:rejects', 'second:rejects'), max_witnesses=300))
    return us


def concrete(case):
    if case.get('scenario') == 'lemma':
        return {}
    if case.get('scenario') == 'verify_root':
        return vdeleg.run_vr(case)
    import conda_content_trust.authentication as A
    import conda_content_trust.common as C
    env = case.get('env', {})
    CC.setup_valid_table(env.get('valid', []))
    cur = from_wire(case['T0'])
    outs, trusted = [], []
    with CC.time_stub(env.get('iso')), CC.stdout_as(env.get('stdout_enc')), CC.temp_files({'root.json': None}) as paths:
        for w in case['offers']:
            U = from_wire(w)
            trusted.append(to_wire(cur))
            oc = CC.outcome_of(A.verify_root, cur, U)
            outs.append(oc)
            if oc['kind'] == 'ret':
                cur = U
                if case.get('persist'):
                    C.write_metadata_to_file(cur, paths['root.json'])
                    cur = C.load_metadata_from_file(paths['root.json'])
    return {'outcomes': outs, 'trusted': trusted}


def agrees(case, obs):
    if case.get('scenario') == 'verify_root':
        return 'outcome' in obs and CC.same_outcome(case.get('predicted'), obs['outcome'])
    return 'outcomes' in obs and all(CC.same_outcome(p, o) for p, o in zip(case['predicted'], obs['outcomes']))


def judge(case, obs):
    if case.get('scenario') == 'lemma':
        return None
    if case.get('scenario') == 'verify_root':
        return vdeleg.judge_vr(case, obs, PROPS)
    if 'outcomes' not in obs:
        return None
    # each step judged as a single call against the root trusted at that point (fresh-call characterisation)
    for i, (oc, tw, uw) in enumerate(zip(obs['outcomes'], obs['trusted'], case['offers'])):
        single = dict(U=uw, T=tw, env=case['env'])
        why = vdeleg.judge_vr(single, {'outcome': oc, 'unchanged': True}, ('C03', 'C04'))
        if why:
            return f'offer {i + 1} of the history: {why} -- the verdict differs from what the same pair gets on its own, i.e. it depends on earlier offers'
    return None


BOUNDS = dict(step='as C03 (arbitrary trusted root, arbitrary offer)',
              history='2 offers against an evolving trusted root; roots with one role of free name, one free key, int thresholds and versions; each offer carries one signature entry of free strings (entries of different offers may coincide); thorough: the accepted root is written and re-loaded between the steps')
OUTSIDE = 'histories longer than 2 are covered only through the inductive step plus statelessness; real disk persistence (assumed = C08); ed25519 forgeability'
ASSUMPTIONS = ['A2, A3', 'the invariant Inv(T) = well-formed root-type metadata delegating root is what verify_root re-establishes on acceptance; the inductive argument over arbitrary-length histories is on paper, each step is decided by the solver']
