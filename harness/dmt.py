"""Typed templates of delegating metadata (root.json / key_mgr.json) and their well-formedness oracle,
shared by the verify_delegation / verify_root harnesses (C03-C06, C13)."""
import z3
from pysym.values import *
from pysym.tmpl import T, conc, get_slot, p_canon, p_natural, p_int_ge1, num_value
from pysym.models import canon, spec_over, alt_cases
from pysym import stubs

ISO = 'IsoOK:%Y-%m-%dT%H:%M:%SZ'
SUPPORTED = ('root', 'key_mgr')


def dm_template(t, name, R=2, M=1, ver_kinds=('int',), thr_kinds=('int',), optional_delegations=False, type_L=8, extra_field=False, optional_version=False):
    """signed part of delegating metadata with the right container types and free values:
    type (free string), version, R roles with free names, M free keys each, thresholds."""
    def num(nm, kinds):
        alts = []
        for k in kinds:
            alts.append({'int': ('int', t.int(nm + '.i')), 'bool': ('bool', t.bool(nm + '.b')), 'float': ('float', t.float(nm + '.f')),
                         'str': ('str', t.str(nm + '.s', 2)), 'none': ('none', None)}[k])
        return alts[0][1] if len(alts) == 1 else t.any(nm, alts)
    roles = []
    for i in range(R):
        keys = [t.str(f'{name}.r{i}.k{j}', 66) for j in range(M)]
        kl = t.slist(f'{name}.r{i}.pk', keys)
        thr = num(f'{name}.r{i}.thr', thr_kinds)
        d = t.sdict(f'{name}.r{i}', [('pubkeys', kl), ('threshold', thr)], optional=False)
        roles.append(dict(name=t.str(f'{name}.r{i}.name', 8), keys=keys, keylist=kl, thr=thr, dict=d))
    dels = t.sdict(name + '.dels', [(r['name'], r['dict']) for r in roles])
    for i, r in enumerate(roles):
        r['present'] = zb(dels.slots[i][0])
    typ = t.str(name + '.type', type_L)
    ver = num(name + '.ver', ver_kinds)
    exp = t.str(name + '.exp', 3)
    fields = [('type', typ), ('metadata_spec_version', '0.6.0'), ('delegations', dels), ('expiration', exp), ('version', ver)]
    if extra_field:
        fields.append(('timestamp', t.str(name + '.ts', 3)))
    signed = t.sdict(name + '.signed', fields, optional=False)
    if optional_delegations:
        signed.slots[2][0] = z3.Bool(t.ns + name + '.has_dels')
    if extra_field:
        signed.slots[5][0] = z3.Bool(t.ns + name + '.has_ts')
    if optional_version:
        signed.slots[4][0] = z3.Bool(t.ns + name + '.has_ver')
    signed.canon_tok = z3.Int(t.ns + name + '#canon')
    signed.canon_stamp = stubs.struct_stamp(signed)
    return dict(signed=signed, roles=roles, dels=dels, type=typ, ver=ver, exp=exp, name=name)


def iso_ok(eng, x):
    return eng.uf(ISO, [x], lambda a, b: a.eq_sym(b))


def wf(eng, d):
    """the signed part satisfies the delegating-metadata schema (transcribed from the property text, C14)"""
    signed = d['signed']
    has_ver = zb(signed.slots[4][0])
    has_ts = zb(signed.slots[5][0]) if len(signed.slots) > 5 else z3.BoolVal(False)
    conds = [zor([d['type'].eq_conc(s) for s in SUPPORTED]), iso_ok(eng, d['exp']), z3.Implies(has_ver, spec_over(d['ver'], p_natural)),
             z3.Or(has_ver, has_ts), z3.Implies(d['type'].eq_conc('root'), has_ver)]
    has_dels = zb(signed.slots[2][0])
    conds.append(has_dels)
    if len(signed.slots) > 5:
        conds.append(z3.Implies(has_ts, iso_ok(eng, signed.slots[5][2])))
    for r in d['roles']:
        kc = []
        for i, k in enumerate(r['keys']):
            kc.append(z3.Implies(r['keylist'].n > i, z3.And(canon(k, 64), *[z3.Not(k.eq_sym(r['keys'][j])) for j in range(i)])))
        conds.append(z3.Implies(r['present'], z3.And(spec_over(r['thr'], p_natural), *kc)))
    return zand(conds)


def role_named(d, name_eq):
    """[(guard, role)] for the roles whose name satisfies name_eq(role name) -- names of present roles are distinct"""
    return [(z3.And(r['present'], name_eq(r['name'])), r) for r in d['roles']]


# ---------------------------------------------------------------------------
# checker lemma for typed templates (assume-guarantee, proved in the same run; this is property C14 on the
# very template the composite harness uses)

PROVED = {}        # (ns, which) -> True once `checker accepts <=> wf` was proved for that template instance
RETKIND = {}       # (ns, which) -> 'none' | 'arg': what the checker returns on acceptance (must be uniform for the lemma to apply)


def attach(desc, envelope, sig_wf=None, key=None):
    """mark an envelope {signatures, signed} built from a typed template so that the checker lemma can apply"""
    desc['signed'].dm_desc = desc
    desc['lemma_key'] = key
    desc['sig_wf'] = sig_wf        # z3 Bool: every present value of the template's signature map is a well-formed entry
    desc['envelope_sigs'] = envelope['signatures']


def checker_lemma_factory(build_env, key, mk_case=None):
    """unit proving: checkformat_delegating_metadata(envelope) returns <=> wf(signed) & signature entries well formed;
    rejections are TypeError / ValueError"""
    def f(eng):
        import conda_content_trust.common as c
        from harness import lemmas
        from pysym.interp import Interp
        from pysym.hutil import run_call, is_ret, exc_in, oblige, path_model, record
        ovr = lemmas.overrides(eng)

        def harness(eng):
            desc, envelope = build_env(eng)
            from pysym.tmpl import freeze
            freeze(envelope)
            it = Interp(eng, ovr)
            out = run_call(it, c.checkformat_delegating_metadata, [envelope])
            good = z3.And(wf(eng, desc), zb(desc['sig_wf']) if desc.get('sig_wf') is not None else z3.BoolVal(True))
            m = path_model(eng)
            if m is None:
                return None
            mk = (lambda mm: mk_case(eng, mm, desc, envelope)) if mk_case else (lambda mm: dict(scenario='lemma'))
            if is_ret(out):
                obs = [oblige(eng, 'checker accepts => well formed', z3.Not(good), mk)]
            elif exc_in(out, ('TypeError', 'ValueError')):
                obs = [oblige(eng, 'checker rejects => not well formed', good, mk)]
            else:
                obs = [dict(name='checker rejects with TypeError/ValueError', status='sat', cex=mk(m))]
            wit = None
            if mk_case:
                wit = mk(m)
                from pysym.hutil import predicted
                wit['predicted'] = predicted(out)
            if any(e['kind'] == 'arg_mutation' for e in eng.events):
                obs.append(dict(name='the checker does not store into its argument', status='sat', cex=mk(m)))
            rec = record(eng, out, obs, wit, ['accepts'] if is_ret(out) else ['rejects'])
            if is_ret(out):
                rec['retkind'] = 'none' if out[1] is None else ('arg' if out[1] is envelope else 'other')
            return rec
        return harness
    return f


def checker_override():
    """interpreter override: on an envelope built from a template whose lemma is proved, the checker is one fork"""
    import conda_content_trust.common as c
    from pysym.interp import PyExc
    real = c.checkformat_delegating_metadata

    def ov(it, fr, md):
        md = fr.split(md)
        if isinstance(md, dict) and set(md.keys()) == {'signatures', 'signed'}:
            signed = md['signed']
            desc = getattr(signed, 'dm_desc', None)
            if desc is not None and PROVED.get(desc.get('lemma_key')) and getattr(signed, 'canon_stamp', None) == stubs.struct_stamp(signed):
                sigs = md['signatures']
                if (isinstance(sigs, dict) and not sigs) or (isinstance(sigs, SDict) and not sigs.slots):
                    sig_ok = z3.BoolVal(True)
                elif sigs is desc.get('envelope_sigs') and desc.get('sig_wf') is not None:
                    sig_ok = zb(desc['sig_wf'])
                else:
                    return it.call_interp(real, [md], {})
                if it.eng.fork(z3.And(wf(it.eng, desc), sig_ok)):
                    return md if RETKIND.get(desc.get('lemma_key')) == 'arg' else None
                e = ValueError('(lemma) not well-formed delegating metadata')
                e.abstract_class = ('TypeError', 'ValueError')
                raise PyExc(e, None, real.__qualname__)
        return it.call_interp(real, [md], {})
    return {real: ov}
