"""C09 -- sign-then-verify round trip, signer binding, determinism, order independence.

wrap_as_signable, sign_signable, serialize_and_sign, PublicKey.to_hex and verify_signable are interpreted from
source.  Keys are symbolic key objects (private key bytes = free 32-byte values that may coincide), signing is the
uninterpreted function Sign(sk, msg) with the axiom Valid(Pub(sk), Sign(sk, m), m) and Pub injective, the payload
is an opaque JSON value whose canonical bytes are a token (A3).  Counterexamples and path witnesses are replayed
with the REAL ed25519 implementation (seeds derived from the model)."""
import z3
from pysym.values import *
from pysym.interp import Interp
from pysym.tmpl import T, conc, freeze
from pysym.models import val_eq, bytes_eq, canon, mk_hex_bytes, hex_view
from pysym.stubs import canon_of, json_eq, public_of
from pysym.hutil import *
from pysym.framework import Unit
from pysym import concrete as CC
from pysym.wire import to_wire, from_wire

ID = 'C09'
NEEDS_LEMMAS = True


def mk_keys(t, n):
    return [KeyObj(raw=SBytes('keyraw', kid=z3.Int(t.ns + f'sk{i}#kid')), private=True) for i in range(n)]


def factory(ns, nkeys=2, pre_entry=True, structured=False):
    def f(eng):
        import conda_content_trust.signing as S
        import conda_content_trust.authentication as A
        import conda_content_trust.common as C
        from harness import lemmas
        ovr = lemmas.overrides(eng)

        def harness(eng):
            t = T(eng, ns=ns)
            if structured:
                # a JSON object with one number-or-boolean member: 1 and true are == in Python but different JSON values
                leaf = lambda nm: t.any(nm, [('int', t.int(nm + '.i')), ('bool', t.bool(nm + '.b'))])
                if structured == 'envelope':
                    # a payload that itself looks like a signed envelope (a signed document being countersigned): still just a payload
                    p = {'signatures': {'aa' * 32: {'signature': 'ab' * 64}}, 'signed': {'n': leaf('p.n')}}
                    p2 = {'signatures': {'aa' * 32: {'signature': 'ab' * 64}}, 'signed': {'n': leaf('p2.n')}}
                else:
                    p, p2 = {'n': leaf('p.n'), 'fixed': [1, 'x']}, {'n': leaf('p2.n'), 'fixed': [1, 'x']}
            else:
                p = t.payload('p', dict)
                p2 = t.payload('p2', dict)
            sks = mk_keys(t, nkeys)
            order = t.bool('order')           # which of two signers signs first in the second run
            it = Interp(eng, ovr)
            obs, reach = [], []
            kids = [k.raw.kid for k in sks]

            def mk(mm):
                return dict(scenario='roundtrip', payload=to_wire(conc(mm, p)), payload2=to_wire(conc(mm, p2)),
                            seeds=[mm.eval(k, model_completion=True).as_long() for k in kids],
                            swap=bool(z3.is_true(mm.eval(order.e, model_completion=True))))

            def fail(name):
                obs.append(dict(name=name, status='sat', cex=None))
            # ---- wrap
            w = run_call(it, S.wrap_as_signable, [p])
            if not is_ret(w):
                raise Unsupported('wrap_as_signable raised on a dict payload')
            env = w[1]
            # ---- sign with sk0
            s0 = run_call(it, S.sign_signable, [env, sks[0]])
            pub0 = run_call(it, C.PublicKey.to_hex, [public_of(it, sks[0])])
            structural = []      # python-level (path-independent) structural failures
            if not is_ret(s0) or not is_ret(pub0):
                structural.append('sign_signable / to_hex raised on valid arguments')
            else:
                sigs = env['signatures'] if isinstance(env, dict) else None
                slots = [sl for sl in sigs.slots if not (isinstance(sl[0], bool) and not sl[0])] if isinstance(sigs, SDict) else \
                    ([[True, k, v] for k, v in sigs.items()] if isinstance(sigs, dict) else None)
                if not isinstance(env, dict) or set(env.keys()) != {'signatures', 'signed'} or slots is None or len(slots) != 1:
                    structural.append('after wrap + one signature the envelope has exactly one signature entry and two fields')
                else:
                    key, entry = slots[0][1], slots[0][2]
                    pubhex = pub0[1]
                    msg = canon_of(it, p)
                    obs.append(oblige(eng, 'the envelope carries the payload unchanged', z3.Not(json_eq(it, env['signed'], p)), mk))
                    obs.append(oblige(eng, "the entry is filed under the hex of the signer's public key", z3.Not(val_eq(it, None, key, pubhex)), mk))
                    obs.append(oblige(eng, 'the key it is filed under is a canonical 64-character hex key', z3.Not(canon(key, 64)) if isinstance(key, SStr) else True, mk))
                    ent = entry.slots if isinstance(entry, SDict) else [[True, k, v] for k, v in entry.items()] if isinstance(entry, dict) else None
                    if ent is None or len(ent) != 1 or ent[0][1] != 'signature' or not isinstance(ent[0][2], SStr):
                        structural.append('the entry is {"signature": <hex string>}')
                    else:
                        sigstr = ent[0][2]
                        S_obj = getattr(sigstr, 'hex_of', None)
                        obs.append(oblige(eng, 'the signature is a well-formed 128-character hex string', z3.Not(canon(sigstr, 128)), mk))
                        if S_obj is None or S_obj.kind != 'sign':
                            structural.append('the stored signature is the hex of Sign(private key, canonical payload bytes)')
                        else:
                            obs.append(oblige(eng, 'the signature is over the canonical bytes of exactly the payload, made with the given key',
                                              z3.Not(z3.And(bytes_eq(it, S_obj.msg, msg), bytes_eq(it, S_obj.sk.raw, sks[0].raw))), mk))
                        # ---- verifies with that key authorised
                        v = run_call(it, A.verify_signable, [env, [pubhex], 1])
                        if not is_ret(v):
                            obs.append(oblige(eng, 'the signed envelope verifies with the signer authorised (threshold 1)', True, mk))
                        else:
                            reach.append('verifies')
                        # ---- idempotent / deterministic
                        snap = [(sl[1], sl[2]) for sl in slots]
                        s0b = run_call(it, S.sign_signable, [env, sks[0]])
                        slots2 = [sl for sl in env['signatures'].slots if not (isinstance(sl[0], bool) and not sl[0])] if isinstance(env['signatures'], SDict) else \
                            [[True, k, v] for k, v in env['signatures'].items()]
                        if not is_ret(s0b) or len(slots2) != 1:
                            obs.append(oblige(eng, 'signing again with the same key changes nothing', True, mk))
                        else:
                            e2 = slots2[0][2]
                            s2 = (e2.slots[0][2] if isinstance(e2, SDict) else list(e2.values())[0])
                            obs.append(oblige(eng, 'signing again with the same key yields the same signature (deterministic, idempotent)',
                                              z3.Not(val_eq(it, None, s2, sigstr)), mk))
                        # ---- second signer: own entry only, order independence, thresholds
                        if nkeys >= 2:
                            s1 = run_call(it, S.sign_signable, [env, sks[1]])
                            pub1 = run_call(it, C.PublicKey.to_hex, [public_of(it, sks[1])])
                            envB = run_call(it, S.wrap_as_signable, [p])[1]
                            first, second = (sks[1], sks[0]), (sks[0], sks[1])
                            if it.eng.fork(order.e):
                                a_, b_ = sks[1], sks[0]
                            else:
                                a_, b_ = sks[0], sks[1]
                            run_call(it, S.sign_signable, [envB, a_])
                            run_call(it, S.sign_signable, [envB, b_])
                            if not is_ret(s1) or not is_ret(pub1):
                                structural.append('second sign_signable raised')
                            else:
                                distinct = z3.Not(bytes_eq(it, sks[0].raw, sks[1].raw))
                                obs.append(oblige(eng, 'signing by two keys in either order yields the same signature map',
                                                  z3.Not(json_eq(it, env['signatures'], envB['signatures'])), mk))
                                cur = env['signatures']
                                kept = val_eq(it, None, cur, cur)
                                # first signer's entry is still there unchanged when the keys differ
                                from pysym.models import contains, getitem
                                has0 = contains(it, None, cur, pubhex)
                                has0 = has0.e if isinstance(has0, SBool) else z3.BoolVal(bool(has0))
                                obs.append(oblige(eng, "a second signer does not disturb the first signer's entry", z3.And(distinct, z3.Not(has0)), mk))
                                auth = [pubhex, pub1[1]]
                                for thr, want in ((1, True), (2, True), (3, False)):
                                    vv = run_call(it, A.verify_signable, [env, auth, thr])
                                    if thr == 2 and is_ret(vv):
                                        obs.append(oblige(eng, 'one signer listed twice among the authorised keys does not verify for threshold 2', z3.Not(distinct), mk))
                                    if want and not is_ret(vv):
                                        obs.append(oblige(eng, f'two distinct authorised signers verify for threshold {thr}', distinct, mk))
                                    if not want and (is_ret(vv) or not exc_in(vv, ('SignatureError',))):
                                        obs.append(oblige(eng, f'two signers do not verify for threshold {thr} (SignatureError)', True, mk))
                                reach.append('two signers')
                        # ---- post-signing edit: verification consults Valid on the NEW canonical bytes only
                        env['signed'] = p2
                        n0 = len(eng.uf_calls.get('Valid', []))
                        run_call(it, A.verify_signable, [env, [pubhex], 1])
                        new_msg = canon_of(it, p2)
                        for (k_, s_, m_), var in eng.uf_calls.get('Valid', [])[n0:]:
                            obs.append(oblige(eng, 'after an edit of the payload, verification checks signatures against the NEW canonical bytes only',
                                              z3.Not(bytes_eq(it, m_, new_msg)), mk))
                        # ---- signing again after the edit replaces the signer's stale entry by a signature over the new payload
                        rs = run_call(it, S.sign_signable, [env, sks[0]])
                        from pysym.models import getitem as _gi
                        from pysym.interp import Frame as _Fr
                        try:
                            ent2 = _gi(it, _Fr(it, factory, {}, None), env['signatures'], pubhex) if is_ret(rs) else None
                        except Exception:
                            ent2 = None
                        sig2 = None
                        if isinstance(ent2, (dict, SDict)):
                            sl2 = ent2.slots if isinstance(ent2, SDict) else [[True, k, v] for k, v in ent2.items()]
                            sig2 = next((v for p_, k, v in sl2 if k == 'signature'), None)
                        S2 = getattr(sig2, 'hex_of', None)
                        if S2 is None or getattr(S2, 'kind', None) != 'sign':
                            obs.append(oblige(eng, 'signing again after an edit of the payload stores a fresh signature', z3.Not(json_eq(it, p, p2)), mk))
                        else:
                            obs.append(oblige(eng, 'signing again after an edit of the payload signs the NEW payload', z3.Not(bytes_eq(it, S2.msg, new_msg)), mk))
            m = path_model(eng)
            if m is None:
                return None
            for name in structural:
                obs.append(dict(name=name, status='sat', cex=mk(m)))
            for ob in obs:
                if ob.get('cex') is None and ob['status'] == 'sat':
                    ob['cex'] = mk(m)
            wit = mk(m)
            wit['predicted'] = {'kind': 'ret'}
            return record(eng, ('ret', None), obs, wit, reach, okey_='roundtrip')
        return harness
    return f


def sequential_factory(ns):
    """a short-lived key signs one envelope and is dropped; a second key, created afterwards, signs another envelope"""
    def f(eng):
        import conda_content_trust.signing as S
        import conda_content_trust.common as C
        from harness import lemmas
        from pysym import models
        ovr = lemmas.overrides(eng)

        def harness(eng):
            t = T(eng, ns=ns)
            p = t.payload('p', dict)
            sks = mk_keys(t, 2)
            it = Interp(eng, ovr)
            envA = run_call(it, S.wrap_as_signable, [p])[1]
            a = run_call(it, S.sign_signable, [envA, sks[0]])
            models.kill(it, sks[0])
            if sks[0].pub is not None:
                models.kill(it, sks[0].pub)
            envB = run_call(it, S.wrap_as_signable, [p])[1]
            b = run_call(it, S.sign_signable, [envB, sks[1]])
            pub1 = run_call(it, C.PublicKey.to_hex, [public_of(it, sks[1])])
            mk = lambda mm: dict(scenario='sequential', payload=to_wire(conc(mm, p)), seeds=[mm.eval(k.raw.kid, model_completion=True).as_long() for k in sks])
            obs = []
            ok = is_ret(a) and is_ret(b) and is_ret(pub1)
            slots = None
            if ok:
                sg = envB['signatures']
                slots = [sl for sl in sg.slots if not (isinstance(sl[0], bool) and not sl[0])] if isinstance(sg, SDict) else [[True, k, v] for k, v in sg.items()]
            m_needed = True
            if not ok or slots is None or len(slots) != 1:
                obs.append(dict(name='each envelope gets exactly one entry from its signer', status='sat', cex=None))
            else:
                obs.append(oblige(eng, "a signature is filed under ITS signer's public key, also when an earlier signer object has been dropped",
                                  z3.Not(val_eq(it, None, slots[0][1], pub1[1])), mk))
            m = path_model(eng)
            if m is None:
                return None
            for ob in obs:
                if ob['status'] == 'sat' and ob.get('cex') is None:
                    ob['cex'] = mk(m)
            w = mk(m)
            w['predicted'] = {'kind': 'ret'}
            return record(eng, ('ret', None), obs, w, ['two sequential signers'], okey_='sequential')
        return harness
    return f


# ---------------------------------------------------------------------------
# concrete side: REAL ed25519

def seed_bytes(n):
    import hashlib
    return hashlib.sha256(b'cct-verif-seed-%d' % n).digest()


def concrete_sequential(case):
    import gc
    import conda_content_trust.signing as S
    import conda_content_trust.common as C
    from cryptography.hazmat.primitives.asymmetric import ed25519
    from cryptography.hazmat.primitives import serialization as Z
    payload = from_wire(case['payload'])
    probs = []
    for rnd in range(24):
        s0, s1 = seed_bytes(case['seeds'][0] * 1000 + rnd), seed_bytes(case['seeds'][1] * 1000 + rnd + 500)
        k0 = C.PrivateKey.from_bytes(s0)
        envA = S.wrap_as_signable(payload)
        S.sign_signable(envA, k0)
        del k0
        gc.collect()
        k1 = C.PrivateKey.from_bytes(s1)
        envB = S.wrap_as_signable(payload)
        S.sign_signable(envB, k1)
        want = ed25519.Ed25519PrivateKey.from_private_bytes(s1).public_key().public_bytes(Z.Encoding.Raw, Z.PublicFormat.Raw).hex()
        if list(envB['signatures']) != [want]:
            probs.append(f'round {rnd}: the second signer\'s signature is filed under {list(envB["signatures"])} instead of its own public key {want}')
            break
        del k1
    return {'outcome': {'kind': 'ret'}, 'problems': probs}


def concrete(case):
    if case.get('scenario') == 'sequential':
        return concrete_sequential(case)
    import copy
    import conda_content_trust.signing as S
    import conda_content_trust.authentication as A
    import conda_content_trust.common as C
    from cryptography.hazmat.primitives.asymmetric import ed25519
    from cryptography.hazmat.primitives import serialization as Z
    res = {'problems': []}
    P = res['problems']
    payload = from_wire(case['payload'])
    payload2 = from_wire(case['payload2'])
    sks = [C.PrivateKey.from_bytes(seed_bytes(s)) for s in case['seeds']]
    ref = [ed25519.Ed25519PrivateKey.from_private_bytes(seed_bytes(s)) for s in case['seeds']]
    refpub = [k.public_key().public_bytes(Z.Encoding.Raw, Z.PublicFormat.Raw).hex() for k in ref]
    with CC.stdout_as(None):
        try:
            before = copy.deepcopy(payload)
            env = S.wrap_as_signable(payload)
            S.sign_signable(env, sks[0])
            if payload != before:
                P.append('wrap/sign modified the payload object')
            if not (isinstance(env, dict) and set(env) == {'signatures', 'signed'}):
                P.append('envelope does not have exactly the two fields')
            if CC.ref_canon(env['signed']) != CC.ref_canon(payload):
                P.append('envelope does not carry the payload unchanged')
            if list(env['signatures']) != [refpub[0]]:
                P.append(f'entry not filed under the signer\'s public key hex: {list(env["signatures"])} vs {refpub[0]}')
            ent = env['signatures'].get(refpub[0])
            expected_sig = ref[0].sign(CC.ref_canon(payload)).hex()
            if ent != {'signature': expected_sig}:
                P.append('entry is not {"signature": hex(ed25519 signature over the canonical payload bytes)}')
            oc = CC.outcome_of(A.verify_signable, env, [refpub[0]], 1)
            if oc['kind'] != 'ret':
                P.append(f'signed envelope does not verify with the signer authorised: {oc["cls"]}')
            snap = copy.deepcopy(env)
            S.sign_signable(env, sks[0])
            if env != snap:
                P.append('signing again with the same key changed the envelope')
            if len(sks) >= 2:
                S.sign_signable(env, sks[1])
                envB = S.wrap_as_signable(payload)
                a, b = (sks[1], sks[0]) if case.get('swap') else (sks[0], sks[1])
                S.sign_signable(envB, a)
                S.sign_signable(envB, b)
                if env['signatures'] != envB['signatures']:
                    P.append('signing by two keys in a different order gives a different signature map')
                distinct = refpub[0] != refpub[1]
                if distinct and env['signatures'].get(refpub[0]) != {'signature': expected_sig}:
                    P.append("a second signer disturbed the first signer's entry")
                auth = [refpub[0], refpub[1]] if distinct else [refpub[0]]
                k = len(auth)
                for thr in range(1, k + 2):
                    oc = CC.outcome_of(A.verify_signable, env, auth, thr)
                    if thr <= k and oc['kind'] != 'ret':
                        P.append(f'{k} authorised signers do not verify for threshold {thr}: {oc["cls"]}')
                    if thr > k and (oc['kind'] == 'ret' or 'SignatureError' not in oc['mro']):
                        P.append(f'{k} signers verify for threshold {thr}')
            if len(sks) >= 2 and refpub[0] == refpub[1]:
                oc = CC.outcome_of(A.verify_signable, env, [refpub[0], refpub[0]], 2)
                if oc['kind'] == 'ret':
                    P.append('one signer listed twice among the authorised keys verifies for threshold 2')
            if CC.ref_canon(payload2) != CC.ref_canon(payload):
                env['signed'] = payload2
                oc = CC.outcome_of(A.verify_signable, env, [refpub[0]], 1)
                if oc['kind'] == 'ret':
                    P.append('after the payload was changed, the old signature still counts')
                S.sign_signable(env, sks[0])
                if env['signatures'].get(refpub[0]) != {'signature': ref[0].sign(CC.ref_canon(payload2)).hex()}:
                    P.append('signing again after an edit of the payload does not store a signature over the new payload')
                elif CC.outcome_of(A.verify_signable, env, [refpub[0]], 1)['kind'] != 'ret':
                    P.append('re-signed envelope does not verify')
        except Exception as e:
            P.append(f'unexpected {type(e).__name__}: {e}')
    res['outcome'] = {'kind': 'ret'}
    return res


def agrees(case, obs):
    return 'outcome' in obs


def judge(case, obs):
    if obs.get('problems'):
        return '; '.join(obs['problems'][:3])
    return None


def units(tier):
    return [Unit('roundtrip:2keys', factory('rt2', 2), expect=('verifies', 'two signers'), max_witnesses=40 if tier == 'quick' else 200),
            Unit('roundtrip:structured', factory('rts', 1, structured=True), expect=('verifies',), max_witnesses=40),
            Unit('roundtrip:envelope-shaped payload', factory('rte', 1, structured='envelope'), expect=('verifies',), max_witnesses=40),
            Unit('sequential signers', sequential_factory('sq'), expect=('two sequential signers',), max_witnesses=10)]


BOUNDS = dict(payload='an opaque JSON object (token) and a second one for the post-signing edit (equal or different); in the structured unit an object {n: integer or boolean, fixed: [1, "x"]} (no opaque part, so that code inspecting the payload can be followed)',
              keys='2 private keys with free (possibly equal) 32-byte values; both signing orders', operations='wrap, sign, sign again, second signer, verification for thresholds 1..3, edit, verification')
OUTSIDE = 'that signatures over other bytes fail (ed25519 unforgeability, A2) -- checked only as argument faithfulness: after an edit verify_signable consults Valid on the new canonical bytes only; RFC 8032 determinism is the assumption that Sign is a function; more than 2 signers; non-dict payloads (C12 covers the copy for all top-level types)'
ASSUMPTIONS = ['Sign(sk, m) is a function with Valid(Pub(sk), Sign(sk, m), m); Pub is injective on private key bytes; A3']
