"""C15 -- leaf format validators decide exact grammars; one spelling per key.

Every public hex / key / signature / fingerprint / signature-entry validator of common.py is
interpreted from its current source on a symbolic argument (an unrolled string over all of
Unicode, every other JSON kind, and a pool of concrete type-confusion values); the property is
`accepts <=> grammar`, `predicate form == raising form`, and injectivity of accepted spellings."""
import re
import z3
from pysym.values import *
from pysym.engine import Unsupported
from pysym.interp import Interp
from pysym.tmpl import T, conc, freeze, get_slot, EXOTIC
from pysym.models import canon, canon_even, spec_over, alt_cases, bytes_eq, mk_hex_bytes, val_eq
from pysym.hutil import *
from pysym.framework import Unit
from pysym import concrete as CC
from pysym.wire import to_wire, from_wire, Exotic

ID = 'C15'
MOD = 'conda_content_trust.common'


def exotic_pool(lengths):
    """concrete type-confusion values: byte strings / char containers holding valid hex of the relevant lengths"""
    out = list(EXOTIC)
    for n in lengths:
        h = ('ab' * n)[:n]
        out += [(f'bytes{n}', h.encode()), (f'bytearray{n}', bytearray(h.encode())), (f'charlist{n}', list(h)),
                (f'chartuple{n}', tuple(h))]
    out += [('chardict', {c: 1 for c in '0123456789abcdef'}), ('charset', set('ab'))]
    return out


def C():
    import conda_content_trust.common as c
    return c


# ---------------------------------------------------------------------------
# leaf grammars

LEAVES = {
    # name: (raiser, predicate, grammar on str, lengths for the exotic pool)
    'hex_string': ('checkformat_hex_string', 'is_hex_string', lambda s: canon_even(s), (2,)),
    'hex_key': ('checkformat_hex_key', 'is_hex_key', lambda s: canon(s, 64), (64,)),
    'hex_signature': (None, 'is_hex_signature', lambda s: canon(s, 128), (128,)),
    'gpg_fingerprint': ('checkformat_gpg_fingerprint', 'is_gpg_fingerprint', lambda s: canon(s, 40), (40,)),
}


def leaf_factory(name, L):
    raiser, pred, grammar, lens = LEAVES[name]

    def build(eng):
        t = T(eng, ns=name)
        return t.any('x', [('str', t.str('x.str', L))] + [a for a in t.json_leafs('x', 1) if a[0] != 'str'] + exotic_pool(lens))

    def mk_case(m, x, calls):
        return dict(scenario='leaf', leaf=name, calls=calls, arg=to_wire(conc(m, x)))

    def factory(eng):
        c = C()

        def harness(eng):
            x = build(eng)
            it = Interp(eng)
            G = spec_over(x, lambda v: grammar(v) if isinstance(v, (SStr, str)) else False)
            obs = []
            calls = [f'{MOD}:{raiser}'] if raiser else []
            calls.append(f'{MOD}:{pred}')
            out = run_call(it, getattr(c, raiser), [x]) if raiser else None
            p = run_call(it, getattr(c, pred), [x])
            m = path_model(eng)
            if m is None:
                return None
            mk = lambda mm: mk_case(mm, x, calls)
            if out is not None:
                if is_ret(out):
                    obs.append(oblige(eng, 'raiser accepts only the grammar', z3.Not(G), mk))
                elif exc_in(out, ('TypeError', 'ValueError')):
                    obs.append(oblige(eng, 'raiser rejects nothing inside the grammar', G, mk))
                else:
                    obs.append(oblige(eng, 'raiser rejects with TypeError/ValueError', True, mk))
            if not is_ret(p):
                obs.append(oblige(eng, 'predicate form never raises', True, mk))
            else:
                pv = p[1]
                pe = pv.e if isinstance(pv, SBool) else z3.BoolVal(bool(pv))
                if not isinstance(pv, (SBool, bool)):
                    obs.append(oblige(eng, 'predicate form returns a bool', True, mk))
                else:
                    obs.append(oblige(eng, 'predicate <=> grammar', pe != G, mk))
                    if out is not None:
                        obs.append(oblige(eng, 'predicate form agrees with raising form', pe != z3.BoolVal(is_ret(out)), mk))
            w = mk_case(m, x, calls)
            w['predicted'] = [predicted(o) for o in ([out] if out is not None else []) + [p]]
            if is_ret(p) and isinstance(p[1], SBool):
                w['predicted'][-1]['value'] = bool(z3.is_true(m.eval(p[1].e, model_completion=True)))
            elif is_ret(p):
                w['predicted'][-1]['value'] = to_wire(p[1]) if not isinstance(p[1], Sym) else None
            reach = []
            if out is not None and is_ret(out):
                reach.append('accepts')
            if out is not None and not is_ret(out):
                reach.append('rejects')
            if is_ret(p) and isinstance(p[1], (SBool, bool)):
                tv = bool(z3.is_true(m.eval(p[1].e, model_completion=True))) if isinstance(p[1], SBool) else p[1]
                reach.append('true' if tv else 'false')
            return record(eng, out or p, obs, w, reach, okey_=(okey(out) if out is not None else '') + '/' + okey(p))
        return harness
    return factory


# ---------------------------------------------------------------------------
# one spelling per key: distinct accepted strings denote distinct bytes; accepted key lists hold no key twice

def injective_factory(L=66):
    def build(eng):
        t = T(eng, ns='inj')
        return t.str('k1', L), t.str('k2', L)

    def factory(eng):
        c = C()

        def harness(eng):
            s, u = build(eng)
            it = Interp(eng)
            lst = [s, u]
            o1 = run_call(it, c.checkformat_hex_key, [s])
            o2 = run_call(it, c.checkformat_hex_key, [u])
            ol = run_call(it, c.checkformat_list_of_hex_keys, [lst])
            m = path_model(eng)
            if m is None:
                return None
            mk = lambda mm: dict(scenario='pair', keys=[conc(mm, s), conc(mm, u)])
            same_bytes = bytes_eq(it, mk_hex_bytes(it, s), mk_hex_bytes(it, u))
            obs = []
            if is_ret(o1) and is_ret(o2):
                obs.append(oblige(eng, 'distinct accepted key strings denote distinct key bytes',
                                  z3.And(z3.Not(s.eq_sym(u)), same_bytes), mk))
            if is_ret(ol):
                obs.append(oblige(eng, 'a key list accepted as duplicate-free holds no key twice under any spelling', same_bytes, mk))
                obs.append(oblige(eng, 'an accepted key list holds only canonical keys', z3.Not(z3.And(canon(s, 64), canon(u, 64))), mk))
            else:
                if exc_in(ol, ('TypeError', 'ValueError')):
                    obs.append(oblige(eng, 'a list of two distinct canonical keys is accepted',
                                      z3.And(canon(s, 64), canon(u, 64), z3.Not(s.eq_sym(u))), mk))
                else:
                    obs.append(oblige(eng, 'key-list checker rejects with TypeError/ValueError', True, mk))
            w = mk(m)
            w['predicted'] = [predicted(o) for o in (o1, o2, ol)]
            return record(eng, ol, obs, w, ['list accepted'] if is_ret(ol) else ['list rejected'], okey_='/'.join(okey(o) for o in (o1, o2, ol)))
        return harness
    return factory


# ---------------------------------------------------------------------------
# signature entries: precisely the raw or the OpenPGP shape

def entry_template(t, Lsig, Loh, Lsa):
    sd = t.sdict('e', [('signature', t.anyjson('e.sig', strL=Lsig)), ('other_headers', t.anyjson('e.oh', strL=Loh)),
                       ('see_also', t.anyjson('e.sa', strL=Lsa)), (t.str('e.zk', 3), t.anyjson('e.zv', strL=1))])
    return t.any('entry', [('dict', sd)] + t.json_leafs('entry', 1, exotic_pool(())))


def entry_shapes(entry):
    """(raw shape, OpenPGP shape) as z3 Bools over the template"""
    sd = entry.alts[0][1]
    (ps, sig), (po, oh), (pa, sa) = [get_slot(sd, k) for k in ('signature', 'other_headers', 'see_also')]
    pz, zk = zb(sd.slots[3][0]), sd.slots[3][1]
    # the free-named slot counts as an extra key unless absent (the template keeps key names distinct)
    sig_ok = z3.And(ps, spec_over(sig, lambda v: canon(v, 128) if isinstance(v, SStr) else False))
    raw = z3.And(entry.tag == 0, sig_ok, z3.Not(po), z3.Not(pa), z3.Not(pz))
    gpg = z3.And(entry.tag == 0, sig_ok, po, spec_over(oh, lambda v: canon_even(v) if isinstance(v, SStr) else False), z3.Not(pz),
                 z3.Or(z3.Not(pa), spec_over(sa, lambda v: canon(v, 40) if isinstance(v, SStr) else False)))
    return raw, gpg


ENTRY_FUNCS = {
    'signature': ('checkformat_signature', 'is_signature', lambda raw, gpg: z3.Or(raw, gpg)),
    'gpg_signature': ('checkformat_gpg_signature', 'is_gpg_signature', lambda raw, gpg: gpg),
    'any_signature': ('checkformat_any_signature', None, lambda raw, gpg: z3.Or(raw, gpg)),
}


def entry_factory(which, Lsig=130, Loh=6, Lsa=42, lemma=True):
    raiser, pred, spec = ENTRY_FUNCS[which]

    def build(eng):
        return entry_template(T(eng, ns='entry_' + which), Lsig, Loh, Lsa)

    def factory(eng):
        c = C()
        from harness import lemmas
        ovr = lemmas.overrides(eng) if lemma else {}

        def harness(eng):
            entry = build(eng)
            freeze(entry)
            it = Interp(eng, ovr)
            raw, gpg = entry_shapes(entry)
            G = spec(raw, gpg)
            calls = [f'{MOD}:{raiser}'] + ([f'{MOD}:{pred}'] if pred else [])
            out = run_call(it, getattr(c, raiser), [entry])
            p = run_call(it, getattr(c, pred), [entry]) if pred else None
            m = path_model(eng)
            if m is None:
                return None
            mk = lambda mm: dict(scenario='entry', which=which, calls=calls, arg=to_wire(conc(mm, entry)))
            obs = []
            if is_ret(out):
                obs.append(oblige(eng, 'entry checker accepts only the raw / OpenPGP shape', z3.Not(G), mk))
            elif exc_in(out, ('TypeError', 'ValueError')):
                obs.append(oblige(eng, 'entry checker rejects no entry of the raw / OpenPGP shape', G, mk))
            else:
                obs.append(oblige(eng, 'entry checker rejects with TypeError/ValueError', True, mk))
            if p is not None:
                if not is_ret(p) or not isinstance(p[1], (SBool, bool)):
                    obs.append(oblige(eng, 'predicate form returns a bool and never raises', True, mk))
                else:
                    pe = p[1].e if isinstance(p[1], SBool) else z3.BoolVal(p[1])
                    obs.append(oblige(eng, 'predicate form agrees with raising form', pe != z3.BoolVal(is_ret(out)), mk))
            if any(e['kind'] == 'arg_mutation' for e in eng.events):
                obs.append(oblige(eng, 'validator does not modify its argument', True, mk))
            w = mk(m)
            w['predicted'] = [predicted(out)] + ([predicted(p)] if p is not None else [])
            return record(eng, out, obs, w, ['accepts'] if is_ret(out) else ['rejects'])
        return harness
    return factory


# ---------------------------------------------------------------------------
# concrete side (runs on the real code in a fresh process)

HEX = {'hex_string': r'(?:[0-9a-f]{2})+', 'hex_key': r'[0-9a-f]{64}', 'hex_signature': r'[0-9a-f]{128}', 'gpg_fingerprint': r'[0-9a-f]{40}'}


def _is(x, which):
    return isinstance(x, str) and re.fullmatch(HEX[which], x, re.ASCII) is not None and '\n' not in x


def _entry_ok(e, which):
    if not isinstance(e, dict):
        return False
    ks = set(e)
    if not all(isinstance(k, str) for k in ks) or 'signature' not in ks or not _is(e['signature'], 'hex_signature'):
        return False
    raw = ks == {'signature'}
    gpg = ks in ({'signature', 'other_headers'}, {'signature', 'other_headers', 'see_also'}) and _is(e['other_headers'], 'hex_string') \
        and ('see_also' not in ks or _is(e['see_also'], 'gpg_fingerprint'))
    return gpg if which == 'gpg_signature' else (raw or gpg)


def concrete(case):
    sc = case['scenario']
    if sc in ('leaf', 'entry'):
        outs = []
        for f in case['calls']:
            arg = from_wire(case['arg'])
            with CC.stdout_as(None):
                outs.append(CC.outcome_of(CC.resolve(f), arg))
        return {'outcomes': outs}
    if sc == 'pair':
        import conda_content_trust.common as c
        k1, k2 = case['keys']
        with CC.stdout_as(None):
            return {'outcomes': [CC.outcome_of(c.checkformat_hex_key, k1), CC.outcome_of(c.checkformat_hex_key, k2),
                                 CC.outcome_of(c.checkformat_list_of_hex_keys, [k1, k2])]}
    raise ValueError(sc)


def agrees(case, obs):
    if 'outcomes' not in obs:
        return False
    return all(CC.same_outcome(p, o) for p, o in zip(case['predicted'], obs['outcomes']))


def judge(case, obs):
    """the property evaluated on the concrete observation; None = holds"""
    if 'outcomes' not in obs:
        return None
    sc = case['scenario']
    outs = obs['outcomes']
    if sc in ('leaf', 'entry'):
        arg = from_wire(case['arg'])
        good = _is(arg, case['leaf']) if sc == 'leaf' else _entry_ok(arg, case['which'])
        for f, o in zip(case['calls'], outs):
            name = f.split(':')[1]
            if name.startswith('is_'):
                if o['kind'] != 'ret':
                    return f'{name}({arg!r:.80}) raised {o["cls"]} instead of returning a bool'
                if o['value'] is not good:
                    return f'{name}({arg!r:.80}) returned {o["value"]!r} but the grammar says {good}'
            else:
                if o['kind'] == 'ret' and not good:
                    return f'{name} accepted {arg!r:.80}, which is outside the grammar'
                if o['kind'] == 'exc' and good:
                    return f'{name} rejected {arg!r:.80} ({o["cls"]}), which is inside the grammar'
                if o['kind'] == 'exc' and not CC.documented(o):
                    return f'{name}({arg!r:.80}) raised {o["cls"]}, not TypeError/ValueError'
        return None
    if sc == 'pair':
        k1, k2 = case['keys']
        a1, a2, al = [o['kind'] == 'ret' for o in outs]
        canon2 = _is(k1, 'hex_key') and _is(k2, 'hex_key')

        def tobytes(k):
            try:
                return bytes.fromhex(k)
            except Exception:
                return None
        if a1 and a2 and k1 != k2 and tobytes(k1) == tobytes(k2):
            return f'two distinct accepted key strings {k1!r:.70} / {k2!r:.70} denote the same key bytes'
        if al and (not canon2 or tobytes(k1) == tobytes(k2)):
            return f'key list [{k1!r:.70}, {k2!r:.70}] accepted as duplicate-free although it is not'
        if not al and canon2 and k1 != k2:
            return 'a list of two distinct canonical keys was rejected'
        if not al and not CC.documented(outs[2]):
            return f'checkformat_list_of_hex_keys raised {outs[2]["cls"]}'
        return None
    return None


def units(tier):
    quick = tier == 'quick'
    us = [
        Unit('hex_string', leaf_factory('hex_string', 12 if quick else 40), expect=('accepts', 'rejects')),
        Unit('hex_key', leaf_factory('hex_key', 66), expect=('accepts', 'rejects')),
        Unit('hex_signature', leaf_factory('hex_signature', 130), expect=('true', 'false')),
        Unit('gpg_fingerprint', leaf_factory('gpg_fingerprint', 42), expect=('accepts', 'rejects')),
        Unit('key_spelling_injective', injective_factory(66), expect=('list accepted', 'list rejected')),
        Unit('entry:signature', entry_factory('signature', Loh=4 if quick else 12), expect=('accepts', 'rejects')),
        Unit('entry:gpg_signature', entry_factory('gpg_signature', Loh=4 if quick else 12), expect=('accepts', 'rejects')),
        Unit('entry:any_signature', entry_factory('any_signature', Loh=4 if quick else 12), expect=('accepts', 'rejects')),
    ]
    return us


BOUNDS = dict(strings='hex string <= 12 (quick) / 40 (thorough) chars, key <= 66, signature <= 130, fingerprint <= 42 chars, '
                      'each over all 0x110000 code points; other_headers <= 4/12 chars in entry templates',
              non_strings='None, bool, int, binary64, empty list/dict, and a pool of concrete type-confusion values '
                          '(bytes/bytearray/char list/char tuple holding valid hex of the relevant length, dict/set of hex chars, object(), complex, timedelta)',
              entries='dict with optional signature / other_headers / see_also of any JSON kind plus one extra key of <= 3 free characters')
OUTSIDE = 'strings longer than the stated bounds; non-string values outside the pool; more than one unknown extra key in a signature entry'
ASSUMPTIONS = ['models of str.isalnum / str.lower / bytes.fromhex on symbolic strings are derived from the running interpreter\'s Unicode tables and validated by replaying every path witness on the real functions',
               'entry units substitute is_hex_string / is_hex_signature / is_hex_key / checkformat_gpg_fingerprint by their grammar only if the corresponding leaf lemma was proved in this run (else the real function is inlined)']
