"""C11 -- repodata artifact signing is complete, faithful and client-verifiable (see harness/repo.py)."""
import z3
from pysym.values import *
from pysym.interp import Interp, PyExc, Frame
from pysym.tmpl import T, conc
from pysym.models import val_eq, bytes_eq, canon, mk_hex_bytes, contains, getitem, clone, dict_slots
from pysym.stubs import canon_of, json_eq, public_of
from pysym.hutil import *
from pysym.framework import Unit
from pysym import concrete as CC
from pysym.wire import to_wire, from_wire
from harness import repo

ID = 'C11'


def lookup(d, name):
    """[(present, value)] of the slots of an engine dict whose key is the concrete string `name`"""
    return [(zb(p), v) for p, k, v in dict_slots(d) if isinstance(k, str) and k == name]


def factory(ns, **kw):
    def f(eng):
        import conda_content_trust.signing as S
        import conda_content_trust.authentication as A
        import conda_content_trust.common as C
        from harness import lemmas
        ovr = lemmas.overrides(eng)

        def harness(eng):
            tp = repo.build(eng, ns, **kw)
            it = Interp(eng, ovr)
            fs = repo.setup_fs(it, tp)
            root = Frame(it, factory, {}, None)
            # a second repodata file signed afterwards in the same process (one artifact, free name and build number)
            t = tp['t']
            nameB = t.str('B.name', 3)
            docB = t.sdict('B.doc', [('packages', t.sdict('B.pk', [(nameB, {'build_number': t.int('B.bn')})], optional=False))], optional=False)
            fs.files['other.json'] = canon_of(it, docB)
            out = run_call(it, S.sign_all_in_repodata, [repo.FNAME, tp['key']])
            mk = lambda mm: dict(repo.mk_case(eng, tp, mm), docB=to_wire(conc(mm, docB)))
            obs, structural, reach = [], [], []
            doc = tp['doc']
            if is_ret(out):
                reach.append('signed')
                cur = fs.files.get(repo.FNAME)
                if not (isinstance(cur, SBytes) and cur.kind == 'canon' and cur.flavour == 'canon'):
                    structural.append('after signing, the file is the canonical serialisation of one JSON document')
                else:
                    doc2 = cur.snapshot
                    # ---- equal to the original except for the signatures section
                    for p, k, v in doc.slots:
                        if k == 'signatures':
                            continue
                        hits = lookup(doc2, k)
                        same = zor([z3.And(q, json_eq(it, v, v2)) for q, v2 in hits])
                        obs.append(oblige(eng, f'top-level field {k!r} is unchanged by signing', z3.And(zb(p), z3.Not(same)), mk))
                        obs.append(oblige(eng, f'signing adds no top-level field {k!r}', z3.And(z3.Not(zb(p)), zor([q for q, _ in hits])), mk))
                    extra = [k for p, k, v in dict_slots(doc2) if not (isinstance(k, str) and k in [s[1] for s in doc.slots])]
                    if extra:
                        structural.append(f'signing added top-level fields {extra!r:.80}')
                    sec = lookup(doc2, 'signatures')
                    live = [v for q, v in sec if eng.fork(q)]
                    if len(live) != 1:
                        structural.append('the signed document has exactly one signatures section')
                    else:
                        sigsec = live[0]
                        key = tp['key']
                        # ---- exactly one entry per listed artifact (stale entries gone)
                        n_art = z3.Sum([z3.If(repo.present_art(tp, a), 1, 0) for a in tp['arts']] + [z3.IntVal(0)])
                        n_ent = z3.Sum([z3.If(zb(p), 1, 0) for p, k, v in dict_slots(sigsec)] + [z3.IntVal(0)])
                        obs.append(oblige(eng, 'the signatures section has exactly one entry per artifact of packages and packages.conda (stale entries gone)', n_art != n_ent, mk))
                        for a in tp['arts']:
                            has = contains(it, root, sigsec, a['name'])
                            has = has.e if isinstance(has, SBool) else z3.BoolVal(bool(has))
                            pa = repo.present_art(tp, a)
                            obs.append(oblige(eng, 'every listed artifact has a signature entry', z3.And(pa, z3.Not(has)), mk))
                            if not eng.fork(z3.And(pa, has)):
                                continue
                            ent = getitem(it, root, sigsec, a['name'])
                            es = dict_slots(ent) if isinstance(ent, (dict, SDict)) else None
                            es = [sl for sl in es if not (isinstance(sl[0], bool) and not sl[0])] if es is not None else None
                            if es is None or len(es) != 1:
                                structural.append('an artifact entry maps exactly one key to a signature')
                                continue
                            pubhex, sd = es[0][1], es[0][2]
                            sds = dict_slots(sd) if isinstance(sd, (dict, SDict)) else None
                            if sds is None or len(sds) != 1 or sds[0][1] != 'signature' or not isinstance(sds[0][2], SStr):
                                structural.append('the signature entry is {"signature": <hex string>}')
                                continue
                            sigstr = sds[0][2]
                            Sobj = getattr(sigstr, 'hex_of', None)
                            obs.append(oblige(eng, 'the signature is a well-formed 128-character hex string', z3.Not(canon(sigstr, 128)), mk))
                            if Sobj is None or Sobj.kind != 'sign':
                                structural.append('the stored value is the hex of an ed25519 signature made by the library')
                                continue
                            meta_now = canon_of(it, root.split(a['meta']))
                            obs.append(oblige(eng, "each signature is over the canonical bytes of that artifact's own metadata, made with the given key",
                                              z3.Not(z3.And(bytes_eq(it, Sobj.msg, meta_now), bytes_eq(it, Sobj.sk.raw, mk_hex_bytes(it, key)))), mk))
                            pub = public_of(it, Sobj.sk)
                            from pysym.models import hex_view
                            obs.append(oblige(eng, "the entry is filed under the signer's public key", z3.Not(val_eq(it, root, pubhex, hex_view(it, pub.raw))), mk))
                            # ---- client side: wrap the artifact's metadata, attach the entry, verify through a pkg_mgr delegation
                            wrapped = run_call(it, S.wrap_as_signable, [root.split(a['meta'])])
                            if is_ret(wrapped):
                                env = wrapped[1]
                                env['signatures'] = {pubhex: sd}
                                key_mgr = {'signatures': {}, 'signed': {'type': 'key_mgr', 'metadata_spec_version': '0.6.0', 'version': 1, 'expiration': '2031-01-01T00:00:00Z',
                                                                         'delegations': {'pkg_mgr': {'pubkeys': [pubhex], 'threshold': 1}}}}
                                ver = run_call(it, A.verify_delegation, ['pkg_mgr', env, key_mgr])
                                if not is_ret(ver):
                                    obs.append(oblige(eng, "a client verifies each entry against the artifact's own metadata through a pkg_mgr delegation", True, mk))
                                else:
                                    reach.append('client verifies')
                # ---- signing again changes nothing
                first = fs.files.get(repo.FNAME)
                out2 = run_call(it, S.sign_all_in_repodata, [repo.FNAME, tp['key']])
                second = fs.files.get(repo.FNAME)
                if not is_ret(out2) or not (isinstance(first, SBytes) and isinstance(second, SBytes)):
                    obs.append(oblige(eng, 'signing an already signed file again succeeds', True, mk))
                else:
                    obs.append(oblige(eng, 'signing again changes nothing', z3.Not(bytes_eq(it, first, second)), mk))
                # ---- another file signed afterwards carries exactly its own artifacts
                out3 = run_call(it, S.sign_all_in_repodata, ['other.json', tp['key']])
                curB = fs.files.get('other.json')
                if not is_ret(out3) or not (isinstance(curB, SBytes) and curB.kind == 'canon'):
                    obs.append(oblige(eng, 'a second repodata file is signed in the same process', True, mk))
                else:
                    secB = [v for q, v in lookup(curB.snapshot, 'signatures') if eng.fork(q)]
                    if len(secB) != 1 or not isinstance(secB[0], (dict, SDict)):
                        structural.append('the second signed document has exactly one signatures section')
                    else:
                        nB = z3.Sum([z3.If(zb(p), 1, 0) for p, k, v in dict_slots(secB[0])] + [z3.IntVal(0)])
                        hasB = contains(it, root, secB[0], nameB)
                        hasB = hasB.e if isinstance(hasB, SBool) else z3.BoolVal(bool(hasB))
                        obs.append(oblige(eng, "a file signed later in the same process lists exactly its own artifacts (nothing carried over from the file signed before)", z3.Not(z3.And(nB == 1, hasB)), mk))
                        reach.append('second file')
            else:
                reach.append('fails:' + out[1])
                # well-formed input and key must be signed
                tag_json = tp['content'].tag == 0
                pk_ok = z3.And(zb(doc.slots[0][0]), tp['pkv'].tag == 0)
                pc_ok = z3.Or(z3.Not(zb(doc.slots[1][0])), tp['pcv'].tag == 0)
                obs.append(oblige(eng, 'a repodata document with a packages object (and, if present, a packages.conda object) and a well-formed key is signed',
                                  z3.And(tag_json, pk_ok, pc_ok, canon(tp['key'], 64)), mk))
            m = path_model(eng)
            if m is None:
                return None
            for name in structural:
                obs.append(dict(name=name, status='sat', cex=mk(m)))
            w = mk(m)
            w['predicted'] = predicted(out)
            return record(eng, out, obs, w, reach)
        return harness
    return f


def concrete(case):
    """REAL crypto, REAL files"""
    import conda_content_trust.signing as S
    import conda_content_trust.authentication as A
    import conda_content_trust.common as C
    from cryptography.hazmat.primitives.asymmetric import ed25519
    from cryptography.hazmat.primitives import serialization as Z
    data = repo.concrete_repodata(case)
    probs = []
    with CC.temp_files({'repodata.json': data}) as paths, CC.stdout_as(None):
        p = paths['repodata.json']
        oc = CC.outcome_of(S.sign_all_in_repodata, p, case['key'])
        if oc['kind'] == 'ret':
            raw = open(p, 'rb').read()
            import json
            try:
                doc2 = json.loads(raw)
            except Exception as e:
                probs.append(f'signed file is not JSON: {e}')
                doc2 = None
            if doc2 is not None:
                doc = json.loads(data)
                if raw != CC.ref_canon(doc2):
                    probs.append('signed file is not in canonical form')
                a = {k: v for k, v in doc.items() if k != 'signatures'}
                b = {k: v for k, v in doc2.items() if k != 'signatures'}
                if CC.ref_canon(a) != CC.ref_canon(b):
                    probs.append('signing changed the document outside its signatures section')
                arts = dict(doc.get('packages', {}))
                arts.update(doc.get('packages.conda', {}) if isinstance(doc.get('packages.conda', {}), dict) else {})
                sec = doc2.get('signatures')
                if not isinstance(sec, dict) or set(sec) != set(arts):
                    probs.append(f'signatures section lists {sorted(sec) if isinstance(sec, dict) else sec!r} but the artifacts are {sorted(arts)}')
                else:
                    sk = ed25519.Ed25519PrivateKey.from_private_bytes(bytes.fromhex(case['key']))
                    pubhex = sk.public_key().public_bytes(Z.Encoding.Raw, Z.PublicFormat.Raw).hex()
                    key_mgr = {'signatures': {}, 'signed': {'type': 'key_mgr', 'metadata_spec_version': '0.6.0', 'version': 1, 'expiration': '2031-01-01T00:00:00Z',
                                                             'delegations': {'pkg_mgr': {'pubkeys': [pubhex], 'threshold': 1}}}}
                    for name, meta in arts.items():
                        ent = sec[name]
                        if ent != {pubhex: {'signature': sk.sign(CC.ref_canon(meta)).hex()}}:
                            probs.append(f'entry of {name!r} is not the signer\'s ed25519 signature over that artifact\'s canonical metadata')
                            continue
                        env = S.wrap_as_signable(meta)
                        env['signatures'] = ent
                        v = CC.outcome_of(A.verify_delegation, 'pkg_mgr', env, key_mgr)
                        if v['kind'] != 'ret':
                            probs.append(f'client verification of {name!r} failed: {v["cls"]}')
                        for other, meta2 in arts.items():
                            if CC.ref_canon(meta2) != CC.ref_canon(meta):
                                env2 = S.wrap_as_signable(meta2)
                                env2['signatures'] = ent
                                if CC.outcome_of(A.verify_delegation, 'pkg_mgr', env2, key_mgr)['kind'] == 'ret':
                                    probs.append(f'signature of {name!r} verifies against the different metadata of {other!r}')
                    oc2 = CC.outcome_of(S.sign_all_in_repodata, p, case['key'])
                    if oc2['kind'] != 'ret' or open(p, 'rb').read() != raw:
                        probs.append('signing again changed the file')
                if case.get('docB') is not None:
                    docB = from_wire(case['docB'])
                    with CC.temp_files({'other.json': CC.ref_canon(docB)}) as pb:
                        oc3 = CC.outcome_of(S.sign_all_in_repodata, pb['other.json'], case['key'])
                        secB = json.loads(open(pb['other.json'], 'rb').read()).get('signatures') if oc3['kind'] == 'ret' else None
                        if oc3['kind'] != 'ret' or not isinstance(secB, dict) or set(secB) != set(docB['packages']):
                            probs.append(f'a second file signed in the same process lists {sorted(secB) if isinstance(secB, dict) else oc3.get("cls")!r}, its artifacts are {sorted(docB["packages"])}')
        else:
            import json
            try:
                doc = json.loads(data) if data is not None else None
            except Exception:
                doc = None
            import re
            if isinstance(doc, dict) and isinstance(doc.get('packages'), dict) and isinstance(doc.get('packages.conda', {}), dict) and re.fullmatch('[0-9a-f]{64}', case['key'] or ''):
                probs.append(f'well-formed repodata and key were not signed: {oc["cls"]} {oc["msg"]:.80}')
    return {'outcome': oc, 'problems': probs}


def agrees(case, obs):
    return 'outcome' in obs and CC.same_outcome(case.get('predicted'), obs['outcome'])


def judge(case, obs):
    return '; '.join(obs.get('problems', [])[:3]) or None


def units(tier):
    q = tier == 'quick'
    return [Unit('sign_all_in_repodata', factory('rp', A=1 if q else 2, B=1, wrong_kinds=True, meta_kinds='conda' if q else True, num_kinds=True), expect=('signed', 'client verifies', 'second file', 'fails:ValueError'), max_witnesses=150)]


BOUNDS = dict(repodata='packages with <= 1 (quick) / 2 (thorough) artifacts and packages.conda with <= 1 artifact, free names of <= 3 characters (distinct across sections), each metadata a JSON object with a free integer-or-boolean field, or a bare boolean / integer / string / null / array; either section present, absent, a list or null; optional stale signatures section with one entry under a free name whose key and signature strings are free (so it may name a listed artifact and the signer own key); optional extra top-level field; file content canonical JSON of that document, non-JSON bytes, or a missing file; then a second file with one artifact (free name <= 3 characters) signed in the same process',
              key='free string <= 66 characters')
OUTSIDE = 'more artifacts per section; artifact names occurring in both sections (excluded by the statement); non-canonical but valid JSON input files (equal after json.load under A3)'
ASSUMPTIONS = ['A3 for the file round trip (json.load of canonical bytes gives the value back)', 'Sign / Pub axioms as in C09; replays use the real ed25519 implementation and real files']
