"""C02 -- threshold completeness: enough valid authorised signers always suffice (see harness/vsign.py)"""
import sys
from pysym.framework import Unit
from harness import vsign, vdeleg

ID = 'C02'
PROPS = ('C02',)


def units(tier):
    q = tier == 'quick'
    us = [Unit('verify_signable:N2', vsign.factory('v2', PROPS, N=2, M=2, Loh=4, junk=True),
               expect=('accepts:raw', 'accepts:gpg', 'rejects:SignatureError', 'rejects:TypeError'), max_witnesses=300)]
    if not q:
        us.append(Unit('verify_signable:N3', vsign.factory('v3', PROPS, N=3, M=3, Loh=4, junk=False), expect=('accepts:raw', 'accepts:gpg'), max_witnesses=600))
        us.append(Unit('verify_signable:rich', vsign.factory('vr', PROPS, N=1, M=1, Loh=6, rich=True, junk=True, any_args=True,
                                                             thr_kinds=('int', 'bool', 'float', 'none', 'str'), modes=(True, False, 1, 0, None, 'x')),
                       expect=('accepts:raw', 'accepts:gpg'), max_witnesses=600))
    us.append(Unit('verify_delegation', vdeleg.factory_vd('c2d', PROPS, **VD), expect=('accepts',), max_witnesses=200))
    us.append(Unit('verify_root', vdeleg.factory_vr('c2r', PROPS, **VR), expect=('accepts',), max_witnesses=150))
    return us


VD = dict(R=2, M=1, N=1, junk=True)
VR = dict(R=2, M=1, N=1, ver_kinds=('int',), ver_kinds_U=('int',))


def pre(res, tier):
    vdeleg.prove_checker_lemmas(res, sys.modules[__name__], vdeleg.lemma_units('vd', 'c2d', **VD) + vdeleg.lemma_units('vr', 'c2r', **VR))


def concrete(case):
    sc = case.get('scenario')
    if sc == 'lemma':
        return {}
    if sc == 'verify_delegation':
        return vdeleg.run_vd(case)
    if sc == 'verify_root':
        return vdeleg.run_vr(case)
    return vsign.run_verify_signable(case)


def agrees(case, obs):
    from pysym import concrete as CC
    return 'outcome' in obs and CC.same_outcome(case.get('predicted'), obs['outcome'])


def judge(case, obs):
    sc = case.get('scenario')
    if sc == 'lemma':
        return None
    if sc == 'verify_delegation':
        return vdeleg.judge_vd(case, obs, PROPS)
    if sc == 'verify_root':
        return vdeleg.judge_vr(case, obs, PROPS)
    return vsign.judge_verify_signable(case, obs, PROPS)


BOUNDS = dict(signature_map='2 (quick) / 3 (thorough) entries under free key strings of <= 66 characters over all of Unicode, each a dict with a free 130-character signature string and an optional free other_headers string (<= 4 chars; thorough adds see_also, an extra field and non-string / non-dict values), plus one junk entry (free key <= 3 chars, any JSON value)',
              authorised='list of <= 2 / 3 free key strings (<= 66 chars); thorough: also non-list / non-string arguments',
              threshold='any int (unbounded), bool, binary64; thorough: also None / str', mode='gpg in {True, False}; thorough: also 1, 0, None, "x"',
              payload='an opaque JSON object (Canon(payload) is a token; A3)')
OUTSIDE = 'more signature entries / authorised keys than stated; forgeability of ed25519 (Valid is uninterpreted: the claim is that acceptance implies enough Valid facts about exactly the key, signature bytes and message the property names)'
ASSUMPTIONS = ['A2: verdicts hold for every interpretation of Valid; SHA-256 is modelled as injective on the hashed byte string',
               'A3: canonserialize is an injective function of the JSON value (checked separately by C07)',
               'leaf validators are replaced by their grammar only when the lemma was proved in this run']
