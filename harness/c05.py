"""C05 -- the delegation check uses exactly the named role's keys and threshold (see harness/vdeleg.py)"""
import sys
from pysym.framework import Unit
from pysym import concrete as CC
from harness import vdeleg

ID = 'C05'
PROPS = ('C05',)


def configs(tier):
    q = tier == 'quick'
    cs = [('verify_delegation:R2', 'd2', dict(R=2, M=1, N=1, junk=False), {}, ('accepts', 'rejects:UnknownRoleError', 'rejects:SignatureError', 'rejects:MetadataVerificationError'), 300)]
    if not q:
        cs.append(('verify_delegation:R2M2N2', 'd22', dict(R=2, M=2, N=2, junk=True, thr_kinds=('int', 'bool', 'float')), {}, ('accepts',), 800))
    return cs


def pre(res, tier):
    lem = []
    for name, ns, kw, extra, expect, nw in configs(tier):
        lem += vdeleg.lemma_units('vd', ns, **kw)
    lem += vdeleg.lemma_units('vd', 'ipa', **INPLACE) + vdeleg.lemma_units('vd', 'ipb', **INPLACE) + vdeleg.lemma_units('vd', 'tr', **TWOROLES)
    vdeleg.prove_checker_lemmas(res, sys.modules[__name__], lem)


INPLACE = dict(R=1, M=1, N=1, junk=False)
TWOROLES = dict(R=1, M=1, N=1, junk=False)


def units(tier):
    us = [Unit(name, vdeleg.factory_vd(ns, PROPS, **extra, **kw), expect=expect, max_witnesses=nw) for name, ns, kw, extra, expect, nw in configs(tier)]
    us.append(Unit('trusted updated in place', vdeleg.factory_vd_inplace('ip', PROPS, **INPLACE), expect=('A/R', 'R/A', 'A/A', 'R/R'), max_witnesses=200))
    us.append(Unit('one envelope, two roles in turn', vdeleg.factory_vd_tworoles('tr', PROPS, **TWOROLES), expect=('A/R', 'R/A', 'R/R'), max_witnesses=200))
    return us


def concrete(case):
    if case.get('scenario') == 'lemma':
        return {}
    if case.get('scenario') == 'vd_inplace':
        return vdeleg.run_vd_inplace(case)
    if case.get('scenario') == 'vd_tworoles':
        return vdeleg.run_vd_tworoles(case)
    return vdeleg.run_vd(case)


def agrees(case, obs):
    if case.get('scenario') in ('vd_inplace', 'vd_tworoles'):
        return 'outcomes' in obs and all(CC.same_outcome(p, o) for p, o in zip(case['predicted'], obs['outcomes']))
    return 'outcome' in obs and CC.same_outcome(case.get('predicted'), obs['outcome'])


def judge(case, obs):
    if case.get('scenario') == 'lemma':
        return None
    if case.get('scenario') == 'vd_inplace':
        return vdeleg.judge_vd_inplace(case, obs, PROPS)
    if case.get('scenario') == 'vd_tworoles':
        return vdeleg.judge_vd_tworoles(case, obs, PROPS)
    return vdeleg.judge_vd(case, obs, PROPS)


BOUNDS = dict(trusted='delegating metadata with 2 roles of free names (<= 8 chars), 1 (quick) / 2 (thorough) free key strings (<= 66 chars) each, any int threshold (thorough: bool / binary64 too), free type (<= 8 chars), any int version, free 3-character expiration',
              untrusted='envelope whose signed part is such a document with one role (its delegations field present or absent, i.e. delegating metadata or not) and a free declared type; signature map of 1 (quick) / 2 (thorough) entries under free keys; C06 and the thorough tier add one junk entry of any JSON kind',
              role_name='free string <= 8 chars (a second free name for the two-roles-in-turn unit)', mode='gpg in {True, False}')
OUTSIDE = 'more roles / keys / entries than stated; untrusted payloads that are not dictionaries; ed25519 forgeability (Valid uninterpreted)'
ASSUMPTIONS = ['A2 (Valid uninterpreted), A3 (canonical serialisation injective)',
               'well-formedness of delegating metadata = the schema of C14 with datetime.strptime abstracted by IsoOK; the checker is replaced by that schema on a template only after `checker accepts <=> schema` was proved for that very template in the same run (lemma units), and its rejection class is then abstracted to {TypeError, ValueError}']
