"""Leaf-predicate lemmas (assume-guarantee, re-proved on every run).

`prove(res)` symbolically executes each leaf validator of common.py on an unrolled string over all
of Unicode and asks z3 whether `validator accepts  <=>  grammar` (and that rejections of strings are
ValueError).  Composite harnesses then replace calls of a *proved* validator on a symbolic string by
the grammar formula (no fork inside the 64/128-character automata); an unproved validator is inlined."""
import time
import z3
from pysym.values import *
from pysym.engine import explore
from pysym.interp import Interp, PyExc
from pysym.tmpl import T
from pysym.models import canon, canon_even
from pysym.hutil import *

PROVED = {}      # lemma name -> max string capacity it was proved for
REPORT = []

SPEC = {
    # name: (function name, kind, grammar, capacity)
    'is_hex_string': ('is_hex_string', 'pred', lambda s: canon_even(s), 42),
    'is_hex_key': ('is_hex_key', 'pred', lambda s: canon(s, 64), 66),
    'is_hex_signature': ('is_hex_signature', 'pred', lambda s: canon(s, 128), 130),
    'checkformat_hex_key': ('checkformat_hex_key', 'raiser', lambda s: canon(s, 64), 66),
    'checkformat_hex_string': ('checkformat_hex_string', 'raiser', lambda s: canon_even(s), 42),
    'checkformat_gpg_fingerprint': ('checkformat_gpg_fingerprint', 'raiser', lambda s: canon(s, 40), 42),
    'is_gpg_fingerprint': ('is_gpg_fingerprint', 'pred', lambda s: canon(s, 40), 42),
}


def _factory(name):
    fname, kind, grammar, L = SPEC[name]

    def build(eng):
        return T(eng, ns='lemma_' + name).str('lx', L)

    def factory(eng):
        import conda_content_trust.common as c

        def harness(eng):
            x = build(eng)
            it = Interp(eng)
            out = run_call(it, getattr(c, fname), [x])
            m = path_model(eng)
            if m is None:
                return None
            G = grammar(x)
            obs = []
            mk = lambda mm: dict(scenario='lemma', arg=None)
            if kind == 'pred':
                if not is_ret(out) or not isinstance(out[1], (SBool, bool)):
                    obs.append(dict(name='returns bool', status='sat'))
                else:
                    pe = out[1].e if isinstance(out[1], SBool) else z3.BoolVal(out[1])
                    obs.append(oblige(eng, 'pred <=> grammar', pe != G, mk))
            else:
                if is_ret(out):
                    obs.append(oblige(eng, 'accept => grammar', z3.Not(G), mk))
                    if out[1] is not x:
                        obs.append(dict(name='returns its argument', status='sat'))
                elif out[1] == 'ValueError':
                    obs.append(oblige(eng, 'reject => not grammar', G, mk))
                else:
                    obs.append(dict(name='rejects strings with ValueError', status='sat'))
            return record(eng, out, obs, None)
        return harness
    return factory


def prove(res=None, names=None, seed=0, log=print):
    """prove the lemmas: one exploration over all of them, paths spread over the worker pool"""
    from pysym.framework import Unit, combined_factory
    names = [n for n in (names or list(SPEC)) if n not in PROVED and n not in [r['name'] for r in REPORT]]
    if not names:
        return
    t0 = time.time()
    units = [Unit(n, _factory(n), qtimeout_ms=120000) for n in names]
    from pysym.framework import unit_seeds
    seeds = unit_seeds(units, seed)
    r = explore(combined_factory(units), seed=seed, eager=True, qtimeout_ms=120000, chunk=1, seeds=seeds)
    by = {n: dict(recs=[], ok=True, nobl=0) for n in names}
    globally_ok = not r['errors'] and not r['leftover']
    for rec in r['records']:
        if 'inconclusive' in rec and 'outcome' not in rec:
            why = rec['inconclusive']
            n = why[1:why.index(']')] if why.startswith('[') else None
            for k in ([n] if n in by else names):
                by[k]['ok'] = False
            continue
        g = by[rec['unit']]
        g['recs'].append(rec)
        for ob in rec['obligations']:
            g['nobl'] += 1
            if ob['status'] != 'unsat':
                g['ok'] = False
    for n in names:
        g = by[n]
        ok = globally_ok and g['ok'] and bool(g['recs'])
        rep = dict(lemma=f'{SPEC[n][0]}(s) for every string s of <= {SPEC[n][3]} code points over all of Unicode <=> grammar'
                         + (' (rejections are ValueError, the argument is returned)' if SPEC[n][1] == 'raiser' else ''),
                   name=n, proved=ok, paths=len(g['recs']), obligations=g['nobl'])
        REPORT.append(rep)
        if ok:
            PROVED[n] = SPEC[n][3]
        log(f'lemma {n}: {"proved" if ok else "NOT proved (the validator will be inlined)"} [{len(g["recs"])} paths, {g["nobl"]} obligations]')
        if res is not None:
            res.lemmas.append(rep)
    log(f'lemmas: {time.time() - t0:.0f}s wall, {r["stats"]["tsolve"]:.0f}s solver cpu')
    if res is not None:
        res.solver_time += r['stats']['tsolve']
        for k, v in r['stats']['queries'].items():
            res.queries[k] = res.queries.get(k, 0) + v
        for rec in r['records']:
            for k, v in rec.get('funcs', {}).items():
                res.functions[k] = v
        for e in r['errors']:
            res.errors.append('lemmas: ' + e)


def overrides(eng=None):
    """interpreter overrides for the lemmas proved in this run"""
    import conda_content_trust.common as c
    ov = {}

    def pred(name, formula):
        fn = getattr(c, SPEC[name][0])

        def f(it, fr, x):
            x = fr.split(x)
            if isinstance(x, SStr) and x.L <= PROVED[name]:
                return SBool(formula(x))
            return it.call_interp(fn, [x], {})
        return fn, f

    def raiser(name, formula):
        fn = getattr(c, SPEC[name][0])

        def f(it, fr, x):
            x = fr.split(x)
            if isinstance(x, SStr) and x.L <= PROVED[name]:
                if it.eng.fork(formula(x)):
                    return x
                raise PyExc(ValueError('(lemma) not in the grammar'), None, fn.__qualname__)
            return it.call_interp(fn, [x], {})
        return fn, f
    for name in PROVED:
        kind, grammar = SPEC[name][1], SPEC[name][2]
        k, v = (pred if kind == 'pred' else raiser)(name, grammar)
        ov[k] = v
    return ov
