"""Shared symbolic harnesses for verify_delegation (C05, C06, C12, C13) and verify_root (C03, C04, C13).

Trusted / untrusted documents are typed templates of delegating metadata (harness/dmt.py) with free role
names, key strings, thresholds, versions and declared types; the untrusted envelope carries a symbolic
signature map (harness/vsign.py) plus an attacker-controlled junk entry.  The oracles are written from the
property statements: well-formedness (C14's schema), the named role's keys and threshold from the trusted
side only, type bound to role by the signed part alone, version + 1 in exact arithmetic."""
import z3
from pysym.values import *
from pysym.interp import Interp
from pysym.tmpl import T, conc, freeze, get_slot, p_natural, p_int_ge1, num_value
from pysym.models import canon, spec_over, alt_cases
from pysym.stubs import canon_of
from pysym.hutil import *
from pysym import concrete as CC
from pysym.wire import to_wire, from_wire
from harness import vsign, dmt


# ---------------------------------------------------------------------------
# verify_delegation

def build_vd(eng, ns, R=2, M=1, N=1, junk=True, thr_kinds=('int',), modes=(True, False), name_any=False, Loh=2, u_timestamp=False):
    t = T(eng, ns=ns)
    Td = dmt.dm_template(t, 'T', R=R, M=M, thr_kinds=thr_kinds)
    Ud = dmt.dm_template(t, 'U', R=1, M=1, optional_delegations=True, extra_field=u_timestamp, optional_version=u_timestamp)
    sigs, real = vsign.make_sigs(t, N, Loh=Loh, junk=junk)
    Tm = {'signatures': {}, 'signed': Td['signed']}
    Um = {'signatures': sigs, 'signed': Ud['signed']}
    dmt.attach(Td, Tm, None, (ns, 'T'))
    dmt.attach(Ud, {'signatures': {}, 'signed': Ud['signed']}, None, (ns, 'U'))
    name = t.str('name', 8)
    namev = t.anyvalue('namev', first=[('s', name)]) if name_any else name
    gpg = t.any('gpg', [(repr(v), v) for v in modes])
    enc = t.int('stdout_enc')
    eng.domain(('enc', ns), z3.And(enc.e >= 0, enc.e <= 2))
    return dict(T=Td, U=Ud, Tm=Tm, Um=Um, sigs=sigs, real=real, name=name, namev=namev, gpg=gpg, enc=enc, junk=junk)


def oracle_vd(it, tp):
    eng = it.eng
    Td, Ud, name = tp['T'], tp['U'], tp['name']
    mode = vsign.gpg_truth(tp['gpg'])
    wfT, wfU = dmt.wf(eng, Td), dmt.wf(eng, Ud)
    msg = canon_of(it, Ud['signed'])
    name_is_str = (tp['namev'].tag == 0) if isinstance(tp['namev'], SAny) else z3.BoolVal(True)
    found, met_lib, met_strict = [], [], []
    for r in Td['roles']:
        g = z3.And(r['present'], name.eq_sym(r['name']))
        lib, strict, _ = vsign.counts(it, tp['sigs'], tp['real'], mode, r['keylist'], r['keys'], msg)
        ok, val = vsign.int_thr(r['thr'])
        found.append(g)
        met_lib.append(z3.And(g, ok, lib >= val))
        met_strict.append(z3.And(g, ok, strict >= val))
    type_bound = z3.Implies(wfU, Ud['type'].eq_sym(name))
    mode_ok = spec_over(tp['gpg'], lambda v: v is True or v is False or (isinstance(v, (int, float)) and not isinstance(v, bool) and v in (0, 1)))
    return dict(wfT=wfT, wfU=wfU, found=zor(found), type_bound=type_bound, mode=mode, mode_ok=mode_ok, name_is_str=name_is_str, sig_ok_lib=zor(met_lib),
                accept_lib=z3.And(name_is_str, wfT, zor(met_lib), type_bound),
                accept_strict=z3.And(name_is_str, mode_ok, wfT, zor(met_strict), type_bound))


def mk_case_vd(eng, tp, m):
    enc = m.eval(tp['enc'].e, model_completion=True).as_long()
    return dict(scenario='verify_delegation', name=to_wire(conc(m, tp['namev'])), U=to_wire(conc(m, tp['Um'])), T=to_wire(conc(m, tp['Tm'])),
                gpg=to_wire(conc(m, tp['gpg'])),
                env=dict(valid=vsign.valid_table(eng, m), iso=iso_table(eng, m), stdout_enc=vsign.ENC_NAMES[enc]))


def strip_envelope(it, tp, o):
    """the same envelope keeping only the entries that count under the oracle (C06: nothing else may matter)"""
    eng = it.eng
    Td, name = tp['T'], tp['name']
    msg = canon_of(it, tp['U']['signed'])
    keep = []
    for r in tp['real']:
        c = []
        for role in Td['roles']:
            f = vsign.slot_facts(it, tp['sigs'], r, o['mode'], role['keylist'], role['keys'], msg)
            c.append(z3.And(role['present'], name.eq_sym(role['name']), f['liberal']))
        keep.append(zor(c))
    slots = [[z3.And(zb(tp['sigs'].slots[r['idx']][0]), k), r['key'], r['val']] for r, k in zip(tp['real'], keep)]
    return {'signatures': SDict(slots, 'stripped'), 'signed': tp['U']['signed']}


def factory_vd(ns, props, relational=False, **kw):
    def f(eng):
        import conda_content_trust.authentication as A
        from harness import lemmas
        ovr = lemmas.overrides(eng)
        ovr.update(dmt.checker_override())

        def harness(eng):
            tp = build_vd(eng, ns, **kw)
            freeze(tp['Um'])
            freeze(tp['Tm'])
            eng.path_local['stdout_enc'] = tp['enc']
            it = Interp(eng, ovr)
            out = run_call(it, A.verify_delegation, [tp['namev'], tp['Um'], tp['Tm']], {'gpg': tp['gpg']})
            o = oracle_vd(it, tp)
            out2 = None
            if relational and is_ret(out):
                stripped = strip_envelope(it, tp, o)
                out2 = run_call(it, A.verify_delegation, [tp['namev'], stripped, tp['Tm']], {'gpg': tp['gpg']})
            m = path_model(eng)
            if m is None:
                return None
            mk = lambda mm: mk_case_vd(eng, tp, mm)
            obs = []
            mutated = any(e['kind'] == 'arg_mutation' for e in eng.events)
            if is_ret(out):
                if 'C05' in props:
                    obs.append(oblige(eng, 'accepted => trusted metadata well formed, role of exactly that name delegated, its keys and threshold met, declared type = role',
                                      z3.Not(o['accept_lib']), mk))
                if 'C06' in props:
                    obs.append(oblige(eng, 'signed part is well-formed delegating metadata of another type => never accepted as this role',
                                      z3.And(o['wfU'], z3.Not(tp['U']['type'].eq_sym(tp['name']))), mk))
                    if out2 is not None and not is_ret(out2):
                        obs.append(oblige(eng, 'accepted envelope stays accepted when stripped to its counting signatures', True, mk))
            else:
                if 'C02' in props:
                    obs.append(oblige(eng, 'enough valid signatures by the keys of the delegated role (type bound) => verify_delegation returns normally', o['accept_strict'], mk))
                if 'C05' in props:
                    obs.append(oblige(eng, 'properly signed for the delegated role (and declaring it, if delegating metadata) => accepted', o['accept_strict'], mk))
                    if not exc_in(out, ('UnknownRoleError', 'MetadataVerificationError')):
                        obs.append(oblige(eng, 'undelegated role is reported as unknown role',
                                          z3.And(o['name_is_str'], o['mode_ok'], o['wfT'], z3.Not(o['found']), o['type_bound']), mk))
                if 'C13' in props:
                    if not documented(out):
                        obs.append(oblige(eng, 'rejections use the documented error families', True, mk))
                    else:
                        argsok = z3.And(o['name_is_str'], o['mode_ok'], o['wfT'])
                        if not exc_in(out, ('MetadataVerificationError',)):
                            obs.append(oblige(eng, 'type-for-role mismatch (role delegated, signatures in order) is a metadata verification error', z3.And(argsok, z3.Not(o['type_bound']), o['sig_ok_lib']), mk))
                        if not exc_in(out, ('UnknownRoleError',)):
                            obs.append(oblige(eng, 'undelegated role is an unknown-role error', z3.And(argsok, o['type_bound'], z3.Not(o['found'])), mk))
            if 'C12' in props and mutated:
                obs.append(oblige(eng, 'verification does not modify its arguments', True, mk))
            w = mk(m)
            w['predicted'] = predicted(out)
            reach = ['accepts'] if is_ret(out) else ['rejects:' + out[1]]
            return record(eng, out, obs, w, reach)
        return harness
    return f


def factory_vd_inplace(ns, props, then_break=False, **kw):
    """two calls with the SAME trusted envelope object whose content is replaced in place between the calls
    (a client that updates its trusted metadata object): the second verdict must follow the new content"""
    def f(eng):
        import conda_content_trust.authentication as A
        from harness import lemmas
        ovr = lemmas.overrides(eng)
        ovr.update(dmt.checker_override())

        def harness(eng):
            tpA = build_vd(eng, ns + 'a', **kw)
            tpB = build_vd(eng, ns + 'b', **kw)
            freeze(tpA['Um'])
            eng.path_local['stdout_enc'] = tpA['enc']
            it = Interp(eng, ovr)
            Tm = tpA['Tm']
            outs, ors = [], []
            for T_ in (tpA['T'], tpB['T']):
                Tm['signed'] = T_['signed']
                tp = dict(tpA, T=T_)
                outs.append(run_call(it, A.verify_delegation, [tpA['namev'], tpA['Um'], Tm], {'gpg': tpA['gpg']}))
                ors.append(oracle_vd(it, tp))
            out3 = None
            if then_break:
                # the same trusted object once more, now structurally broken (its signed part removed): must be refused as malformed input
                del Tm['signed']
                out3 = run_call(it, A.verify_delegation, [tpA['namev'], tpA['Um'], Tm], {'gpg': tpA['gpg']})
            m = path_model(eng)
            if m is None:
                return None

            def mk(mm):
                Tm['signed'] = tpA['T']['signed']
                c1 = mk_case_vd(eng, tpA, mm)
                Tm['signed'] = tpB['T']['signed']
                c2 = mk_case_vd(eng, tpA, mm)
                return dict(scenario='vd_inplace', then_break=then_break, name=c1['name'], U=c1['U'], gpg=c1['gpg'], T1=c1['T'], T2=c2['T'], env=c2['env'])
            obs = []
            for i, (out, o) in enumerate(zip(outs, ors)):
                if is_ret(out):
                    obs.append(oblige(eng, f'call {i + 1} (trusted metadata object updated in place between calls) accepted => the CURRENT trusted content justifies it', z3.Not(o['accept_lib']), mk))
                else:
                    obs.append(oblige(eng, f'call {i + 1} (trusted metadata object updated in place between calls) rejected => the current trusted content does not justify acceptance', o['accept_strict'], mk))
            if out3 is not None:
                if is_ret(out3) or not exc_in(out3, ('TypeError', 'ValueError')):
                    obs.append(oblige(eng, 'call 3 with the same trusted object, now without its signed part, is refused as malformed input (TypeError / ValueError)', True, mk))
                outs = outs + [out3]
            w = mk(m)
            w['predicted'] = [predicted(o) for o in outs]
            return record(eng, outs[1], obs, w, ['/'.join('A' if is_ret(o) else 'R' for o in outs[:2])], okey_='/'.join(okey(o) for o in outs))
        return harness
    return f


def factory_vd_tworoles(ns, props, **kw):
    """two calls with the SAME envelope and the SAME trusted metadata but two (free, possibly equal) role names in one
    interpreter state: each verdict must follow its own role name (a verdict remembered from the first call must not
    be handed out for another role)"""
    def f(eng):
        import conda_content_trust.authentication as A
        from harness import lemmas
        ovr = lemmas.overrides(eng)
        ovr.update(dmt.checker_override())

        def harness(eng):
            tp = build_vd(eng, ns, **kw)
            name2 = T(eng, ns=ns + '2').str('name', 8)
            freeze(tp['Um'])
            freeze(tp['Tm'])
            eng.path_local['stdout_enc'] = tp['enc']
            it = Interp(eng, ovr)
            tps = [tp, dict(tp, name=name2, namev=name2)]
            outs, ors = [], []
            for tpi in tps:
                outs.append(run_call(it, A.verify_delegation, [tpi['namev'], tp['Um'], tp['Tm']], {'gpg': tp['gpg']}))
                ors.append(oracle_vd(it, tpi))
            m = path_model(eng)
            if m is None:
                return None

            def mk(mm):
                c1 = mk_case_vd(eng, tp, mm)
                return dict(scenario='vd_tworoles', name=c1['name'], name2=to_wire(conc(mm, name2)), U=c1['U'], gpg=c1['gpg'], T=c1['T'], env=c1['env'])
            obs = []
            for i, (out, o) in enumerate(zip(outs, ors)):
                if is_ret(out):
                    obs.append(oblige(eng, f'call {i + 1} (same envelope presented for two roles in turn) accepted => justified for THAT role', z3.Not(o['accept_lib']), mk))
                else:
                    obs.append(oblige(eng, f'call {i + 1} (same envelope presented for two roles in turn) rejected => not justified for that role', o['accept_strict'], mk))
            w = mk(m)
            w['predicted'] = [predicted(o) for o in outs]
            return record(eng, outs[1], obs, w, ['/'.join('A' if is_ret(o) else 'R' for o in outs)], okey_='/'.join(okey(o) for o in outs))
        return harness
    return f


def run_vd_tworoles(case):
    import conda_content_trust.authentication as A
    env = case.get('env', {})
    CC.setup_valid_table(env.get('valid', []))
    U, gpg, Tm = from_wire(case['U']), from_wire(case['gpg']), from_wire(case['T'])
    outs = []
    with CC.time_stub(env.get('iso')), CC.stdout_as(env.get('stdout_enc')):
        for nm in (from_wire(case['name']), from_wire(case['name2'])):
            outs.append(CC.outcome_of(A.verify_delegation, nm, U, Tm, gpg=gpg))
    return {'outcomes': outs}


def judge_vd_tworoles(case, obs, props):
    if 'outcomes' not in obs:
        return None
    for i, (oc, nm) in enumerate(zip(obs['outcomes'], (case['name'], case['name2']))):
        single = dict(name=nm, U=case['U'], T=case['T'], gpg=case['gpg'], env=case['env'])
        why = judge_vd(single, {'outcome': oc, 'unchanged': True, 'stripped': None}, props)
        if why:
            return f'call {i + 1} of the same envelope presented for two roles in turn: {why}'
    return None


def run_vd_inplace(case):
    import conda_content_trust.authentication as A
    env = case.get('env', {})
    CC.setup_valid_table(env.get('valid', []))
    name, U, gpg = from_wire(case['name']), from_wire(case['U']), from_wire(case['gpg'])
    T1, T2 = from_wire(case['T1']), from_wire(case['T2'])
    outs = []
    with CC.time_stub(env.get('iso')), CC.stdout_as(env.get('stdout_enc')):
        Tm = T1
        outs.append(CC.outcome_of(A.verify_delegation, name, U, Tm, gpg=gpg))
        Tm.clear()
        Tm.update(T2)           # same object, new content
        outs.append(CC.outcome_of(A.verify_delegation, name, U, Tm, gpg=gpg))
        if case.get('then_break'):
            Tm.pop('signed', None)          # same object, now structurally broken
            outs.append(CC.outcome_of(A.verify_delegation, name, U, Tm, gpg=gpg))
    return {'outcomes': outs}


def judge_vd_inplace(case, obs, props):
    if 'outcomes' not in obs:
        return None
    if case.get('then_break') and len(obs['outcomes']) > 2:
        o3 = obs['outcomes'][2]
        if o3['kind'] == 'ret' or not ({'TypeError', 'ValueError'} & set(o3.get('mro', []))):
            return f'call 3 with the same trusted object, now without its signed part: {"accepted" if o3["kind"] == "ret" else "raised " + o3["cls"]} instead of being refused as malformed input (TypeError / ValueError)'
    for i, (oc, tw) in enumerate(zip(obs['outcomes'], (case['T1'], case['T2']))):
        single = dict(name=case['name'], U=case['U'], T=tw, gpg=case['gpg'], env=case['env'])
        why = judge_vd(single, {'outcome': oc, 'unchanged': True, 'stripped': None}, props)
        if why:
            return f'call {i + 1} with the trusted metadata object updated in place: {why} -- the verdict does not follow the current trusted content'
    return None


def run_vd(case):
    import conda_content_trust.authentication as A
    env = case.get('env', {})
    CC.setup_valid_table(env.get('valid', []))
    name, U, Tm, gpg = from_wire(case['name']), from_wire(case['U']), from_wire(case['T']), from_wire(case['gpg'])
    before = to_wire([U, Tm])
    with CC.time_stub(env.get('iso')), CC.stdout_as(env.get('stdout_enc')):
        oc = CC.outcome_of(A.verify_delegation, name, U, Tm, gpg=gpg)
        stripped_oc = None
        if oc['kind'] == 'ret' and case.get('check_stripped', True):
            S = strip_concrete(U, Tm, name, gpg)
            if S is not None:
                stripped_oc = CC.outcome_of(A.verify_delegation, name, S, Tm, gpg=gpg)
    return {'outcome': oc, 'unchanged': to_wire([U, Tm]) == before, 'stripped': stripped_oc}


def _iso_fn(table):
    from harness.c14 import _iso_fn as f
    return f(table or {})


def strip_concrete(U, Tm, name, gpg):
    """keep only entries that are valid signatures by keys authorised for the role"""
    try:
        role = Tm['signed']['delegations'][name]
        keys = role['pubkeys']
        out = {}
        for k, e in U['signatures'].items():
            lib, _ = vsign.concrete_counts({'signatures': {k: e}, 'signed': U['signed']}, keys, bool(gpg))
            if lib:
                out[k] = e
        return {'signatures': out, 'signed': U['signed']}
    except Exception:
        return None


def judge_vd(case, obs, props):
    from harness.c14 import concrete_schema
    if 'outcome' not in obs:
        return None
    env = case.get('env', {})
    CC.setup_valid_table(env.get('valid', []))
    iso = _iso_fn(env.get('iso'))
    name, U, Tm, gpg = from_wire(case['name']), from_wire(case['U']), from_wire(case['T']), from_wire(case['gpg'])
    oc = obs['outcome']
    wfT = concrete_schema(Tm, iso)
    wfU = isinstance(U, dict) and 'signed' in U and concrete_schema({'signatures': {}, 'signed': U['signed']}, iso)
    role = Tm['signed']['delegations'].get(name) if wfT and isinstance(name, str) else None
    type_ok = (not wfU) or U['signed']['type'] == name
    mode_ok = gpg in (True, False)
    lib = strict = 0
    thr_int = False
    if role is not None:
        thr = role['threshold']
        thr_int = isinstance(thr, int) and thr >= 1
        lib, strict = vsign.concrete_counts(U, role['pubkeys'], bool(gpg))
    if oc['kind'] == 'ret':
        if 'C05' in props and not (wfT and role is not None and thr_int and lib >= role['threshold'] and type_ok):
            return (f'verify_delegation accepted {name!r}: trusted well-formed={wfT}, role delegated={role is not None}, '
                    f'counting keys={lib}, threshold={role["threshold"] if role else None!r}, type bound={type_ok}')
        if 'C06' in props:
            if not type_ok:
                return f'metadata whose signed part is well-formed delegating metadata of type {U["signed"]["type"]!r} was accepted as role {name!r}'
            so = obs.get('stripped')
            if so is not None and so['kind'] != 'ret':
                return f'accepted envelope is rejected ({so["cls"]}) once stripped to its valid authorised signatures: acceptance depended on unsigned content'
    else:
        if 'C05' in props or 'C02' in props:
            if wfT and role is not None and thr_int and strict >= role['threshold'] and type_ok and mode_ok and isinstance(name, str):
                return f'verify_delegation raised {oc["cls"]} ({oc["msg"]:.100}) although role {name!r} is delegated and its keys/threshold are met ({strict} >= {role["threshold"]})'
            if 'C05' in props and wfT and isinstance(name, str) and mode_ok and role is None and type_ok and 'UnknownRoleError' not in oc['mro']:
                return f'undelegated role {name!r} reported as {oc["cls"]} instead of UnknownRoleError'
        if 'C13' in props:
            if not CC.documented(oc):
                return f'verify_delegation raised {oc["cls"]}, outside the documented error families'
            if wfT and isinstance(name, str) and mode_ok:
                if not type_ok and role is not None and thr_int and lib >= role['threshold'] and 'MetadataVerificationError' not in oc['mro']:
                    return f'type-for-role mismatch reported as {oc["cls"]} instead of MetadataVerificationError'
                if type_ok and role is None and 'UnknownRoleError' not in oc['mro']:
                    return f'undelegated role reported as {oc["cls"]} instead of UnknownRoleError'
    if 'C12' in props and not obs.get('unchanged', True):
        return 'verify_delegation modified its arguments'
    return None


# ---------------------------------------------------------------------------
# verify_root

def build_vr(eng, ns, R=2, M=1, N=1, junk=False, ver_kinds=('int', 'bool', 'float'), ver_kinds_U=None, thr_kinds=('int',), Loh=2, type_L=8):
    t = T(eng, ns=ns)
    Td = dmt.dm_template(t, 'T', R=R, M=M, ver_kinds=ver_kinds, thr_kinds=thr_kinds, type_L=type_L)
    Ud = dmt.dm_template(t, 'U', R=R, M=M, ver_kinds=ver_kinds_U or ver_kinds, thr_kinds=thr_kinds, type_L=type_L)
    sigs, real = vsign.make_sigs(t, N, Loh=Loh, junk=junk, gpg_only=False)
    Tm = {'signatures': {}, 'signed': Td['signed']}
    Um = {'signatures': sigs, 'signed': Ud['signed']}
    enc = t.int('stdout_enc')
    eng.domain(('enc', ns), z3.And(enc.e >= 0, enc.e <= 2))
    tp = dict(T=Td, U=Ud, Tm=Tm, Um=Um, sigs=sigs, real=real, enc=enc)
    dmt.attach(Td, Tm, None, (ns, 'T'))
    dmt.attach(Ud, Um, sig_entries_wf(tp), (ns, 'U'))
    return tp


def exact_version(v):
    """exact integer value of an integral version template (for the +1 comparison in exact arithmetic)"""
    return z3.Sum([z3.If(g, num_value(x) if num_value(x) is not None else z3.IntVal(0), 0) for g, x in alt_cases(v)] + [z3.IntVal(0)])


def sig_entries_wf(tp):
    """every present signature-map value is a well-formed entry (the checker inspects the whole envelope)"""
    conds = []
    for r in tp['real']:
        sd = r['entry']
        (ps, _), (po, _) = get_slot(sd, 'signature'), get_slot(sd, 'other_headers')
        from pysym.models import canon_even
        raw = z3.And(ps, canon(r['sig'], 128), z3.Not(po))
        gpg = z3.And(ps, canon(r['sig'], 128), po, canon_even(r['oh']))
        conds.append(z3.Implies(zb(tp['sigs'].slots[r['idx']][0]), z3.Or(raw, gpg)))
    return zand(conds)


def oracle_vr(it, tp, Td=None, wfT_sigs=None):
    """tp: the offered side (U template, its signature map); Td: trusted template (default tp['T'])"""
    eng = it.eng
    Td = Td or tp['T']
    Ud = tp['U']
    wfT = dmt.wf(eng, Td) if wfT_sigs is None else z3.And(dmt.wf(eng, Td), wfT_sigs)
    wfU = z3.And(dmt.wf(eng, Ud), sig_entries_wf(tp))
    msg = canon_of(it, Ud['signed'])
    both_root = z3.And(Td['type'].eq_conc('root'), Ud['type'].eq_conc('root'))
    succ = exact_version(Ud['ver']) == exact_version(Td['ver']) + 1

    def rule(d):
        has, met_lib, met_strict = [], [], []
        for r in d['roles']:
            g = z3.And(r['present'], r['name'].eq_conc('root'))
            lib, strict, _ = vsign.counts(it, tp['sigs'], tp['real'], z3.BoolVal(True), r['keylist'], r['keys'], msg)
            ok, val = vsign.int_thr(r['thr'])
            has.append(g)
            met_lib.append(z3.And(g, ok, lib >= val))
            met_strict.append(z3.And(g, ok, strict >= val))
        return zor(has), zor(met_lib), zor(met_strict)
    hasT, libT, strictT = rule(Td)
    hasU, libU, strictU = rule(Ud)
    pre = z3.And(wfT, wfU, both_root, hasT, hasU, succ)
    return dict(wfT=wfT, wfU=wfU, both_root=both_root, succ=succ, hasT=hasT, hasU=hasU,
                accept_lib=z3.And(pre, libT, libU), accept_strict=z3.And(pre, strictT, strictU), libT=libT, libU=libU)


def mk_case_vr(eng, tp, m, Tm=None):
    enc = m.eval(tp['enc'].e, model_completion=True).as_long()
    return dict(scenario='verify_root', U=to_wire(conc(m, tp['Um'])), T=to_wire(conc(m, Tm or tp['Tm'])),
                env=dict(valid=vsign.valid_table(eng, m), iso=iso_table(eng, m), stdout_enc=vsign.ENC_NAMES[enc]))


def factory_vr(ns, props, **kw):
    def f(eng):
        import conda_content_trust.authentication as A
        from harness import lemmas
        ovr = lemmas.overrides(eng)
        ovr.update(dmt.checker_override())

        def harness(eng):
            tp = build_vr(eng, ns, **kw)
            freeze(tp['Um'])
            freeze(tp['Tm'])
            eng.path_local['stdout_enc'] = tp['enc']
            it = Interp(eng, ovr)
            out = run_call(it, A.verify_root, [tp['Tm'], tp['Um']])
            o = oracle_vr(it, tp)
            m = path_model(eng)
            if m is None:
                return None
            mk = lambda mm: mk_case_vr(eng, tp, mm)
            obs = []
            if is_ret(out):
                if 'C03' in props or 'C04' in props:
                    obs.append(oblige(eng, 'accepted => both well-formed root metadata, version exactly +1, signatures meet the trusted root rule and the new root rule',
                                      z3.Not(o['accept_lib']), mk))
            else:
                if 'C03' in props or 'C02' in props:
                    obs.append(oblige(eng, 'well-formed successor signed per both rule sets => accepted', o['accept_strict'], mk))
                if 'C13' in props:
                    if not documented(out):
                        obs.append(oblige(eng, 'rejections use the documented error families', True, mk))
                    elif not exc_in(out, ('MetadataVerificationError',)):
                        obs.append(oblige(eng, 'root version mismatch (everything else in order) is a metadata verification error',
                                          z3.And(o['wfT'], o['wfU'], o['both_root'], o['hasT'], o['hasU'], z3.Not(o['succ']), o['libT'], o['libU']), mk))
            if ('C12' in props or 'C04' in props) and any(e['kind'] == 'arg_mutation' for e in eng.events):
                obs.append(oblige(eng, 'verification does not modify its arguments', True, mk))
            w = mk(m)
            w['predicted'] = predicted(out)
            reach = ['accepts'] if is_ret(out) else ['rejects:' + out[1]]
            return record(eng, out, obs, w, reach)
        return harness
    return f


def run_vr(case):
    import conda_content_trust.authentication as A
    env = case.get('env', {})
    CC.setup_valid_table(env.get('valid', []))
    U, Tm = from_wire(case['U']), from_wire(case['T'])
    before = to_wire([U, Tm])
    with CC.time_stub(env.get('iso')), CC.stdout_as(env.get('stdout_enc')):
        oc = CC.outcome_of(A.verify_root, Tm, U)
    return {'outcome': oc, 'unchanged': to_wire([U, Tm]) == before}


def _exact(v):
    import math
    if isinstance(v, bool):
        return int(v)
    if isinstance(v, int):
        return v
    if isinstance(v, float) and v == v and abs(v) != math.inf and int(v) == v:
        return int(v)
    return None


def judge_vr(case, obs, props):
    from harness.c14 import concrete_schema
    if 'outcome' not in obs:
        return None
    env = case.get('env', {})
    CC.setup_valid_table(env.get('valid', []))
    iso = _iso_fn(env.get('iso'))
    U, Tm = from_wire(case['U']), from_wire(case['T'])
    oc = obs['outcome']
    wfT, wfU = concrete_schema(Tm, iso), concrete_schema(U, iso)
    ok_pre = wfT and wfU and Tm['signed']['type'] == 'root' and U['signed']['type'] == 'root' \
        and 'root' in Tm['signed']['delegations'] and 'root' in U['signed']['delegations']
    succ = lib_ok = strict_ok = False
    if ok_pre:
        vt, vu = _exact(Tm['signed']['version']), _exact(U['signed']['version'])
        succ = vt is not None and vu is not None and vu == vt + 1
        res = []
        for d in (Tm, U):
            role = d['signed']['delegations']['root']
            thr = role['threshold']
            lib, strict = vsign.concrete_counts(U, role['pubkeys'], True)
            ti = isinstance(thr, int) and thr >= 1
            res.append((ti and lib >= thr, ti and strict >= thr))
        lib_ok, strict_ok = all(r[0] for r in res), all(r[1] for r in res)
    if oc['kind'] == 'ret':
        if ('C03' in props or 'C04' in props) and not (ok_pre and succ and lib_ok):
            return (f'verify_root accepted: both well-formed root metadata delegating root={ok_pre}, version exactly +1={succ} '
                    f'({Tm["signed"].get("version")!r} -> {U["signed"].get("version")!r}), both rule sets met={lib_ok}')
    else:
        if ('C03' in props or 'C02' in props) and ok_pre and succ and strict_ok:
            return f'verify_root raised {oc["cls"]} ({oc["msg"]:.100}) on a well-formed successor signed per the trusted and the new root rules'
        if 'C13' in props:
            if not CC.documented(oc):
                return f'verify_root raised {oc["cls"]}, outside the documented error families'
            if ok_pre and not succ and lib_ok and 'MetadataVerificationError' not in oc['mro']:
                return f'root version mismatch reported as {oc["cls"]} instead of MetadataVerificationError'
    if ('C12' in props or 'C04' in props) and not obs.get('unchanged', True):
        return 'verify_root modified its arguments'
    return None


# ---------------------------------------------------------------------------
# checker lemma units for the templates above (run before the main units)

def lemma_units(kind, ns, **kw):
    from pysym.framework import Unit
    build = build_vd if kind == 'vd' else build_vr

    def env_of(which):
        def b(eng):
            tp = build(eng, ns, **kw)
            d = tp[which]
            if kind == 'vr' and which == 'U':
                return d, tp['Um']
            return d, {'signatures': {}, 'signed': d['signed']}
        return b
    return [Unit(f'lemma:checker:{ns}:{w}', dmt.checker_lemma_factory(env_of(w), (ns, w)), expect=('accepts', 'rejects')) for w in ('T', 'U')]


def prove_checker_lemmas(res, module, units):
    """run the lemma units; a lemma counts as proved when its unit explored paths, every obligation was unsat and nothing was inconclusive"""
    from pysym import framework as F
    before_inc = len(res.inconclusive)
    n0 = (res.obligations, res.discharged)
    import os
    # the lemma phase has its own time budget: a lemma that is not finished is not proved (the checker is then inlined)
    recs = F.run_units(res, module, units, budget_s=int(os.environ.get('CCT_VERIF_LEMMA_BUDGET_S', 900)))
    by = {}
    for r in recs:
        if 'unit' in r:
            by.setdefault(r['unit'], []).append(r)
    bad_units = {i.get('unit') for i in res.inconclusive[before_inc:]}
    for u in units:
        rs = by.get(u.name, [])
        ok = bool(rs) and u.name not in bad_units and '?' not in bad_units and '*' not in bad_units \
            and all(ob['status'] == 'unsat' for r in rs for ob in r.get('obligations', ()))
        ns, w = u.name.split(':')[2:4]
        kinds = {r.get('retkind') for r in rs if r.get('retkind')}
        if len(kinds) != 1 or kinds & {'other'}:
            ok = False          # the checker's return value is not uniform: no substitution
        else:
            dmt.RETKIND[(ns, w)] = kinds.pop()
        dmt.PROVED[(ns, w)] = ok
        res.lemmas.append(dict(lemma=f'checkformat_delegating_metadata accepts the {w} template of unit {ns} <=> it is well formed (C14 on this template)',
                               name=u.name, proved=ok, paths=len(rs)))
        F.log(f'{u.name}: {"proved" if ok else "NOT proved (the checker will be inlined)"} [{len(rs)} paths]')
