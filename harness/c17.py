"""C17 -- CLI exit status and output reflect the library's verdict.

 (1) cli_verify_metadata is interpreted on the in-memory file system (each file: JSON document with / without the signed
     part and the type field, of any kind; not JSON; missing) with the two verifiers replaced by stubs that return
     or raise any of the library's error classes, TypeError, ValueError or an internal error; obligations: the right
     verifier is called with the right arguments in the right order (root-chain check iff the untrusted file declares
     type root, else delegation check for its declared type), the process status is 0 and success is printed iff
     that call returned, every rejection or error gives a non-zero status.  (That the verifiers accept exactly what
     they should is C03 / C05.)
 (2) the three entry points -- console script (sys.exit(cli()), what pip generates for [project.scripts]),
     python -m conda_content_trust (module body of __main__.py), python -m conda_content_trust.cli (the
     `if __name__ == "__main__"` block) -- are interpreted with cli() returning any status or raising: all give the
     process status of the console script.
 (3) sign-artifacts: status 0 only if the file was signed (shared with C18's harness, no fault)."""
import ast
import inspect
import sys
import types
import z3
from pysym.values import *
from pysym.interp import Interp, PyExc, Frame
from pysym.tmpl import T, conc
from pysym.models import val_eq
from pysym.stubs import FS, canon_of, json_eq
from pysym.hutil import *
from pysym.framework import Unit
from pysym import concrete as CC
from pysym.wire import to_wire, from_wire
from harness import c18

ID = 'C17'
OUTCOMES = ['ret', 'SignatureError', 'MetadataVerificationError', 'UnknownRoleError', 'CCT_Error', 'TypeError', 'ValueError', 'KeyError']


def status_of(v):
    """process exit status for sys.exit(v) / a returned status"""
    if v is None:
        return 0
    if isinstance(v, bool):
        return int(v)
    if isinstance(v, int):
        return v & 0xFF if v >= 0 else 1
    return 1


def verify_factory(ns, through_cli=False):
    def f(eng):
        import conda_content_trust.cli as CLI
        import conda_content_trust.authentication as A
        import conda_content_trust.common as C

        def harness(eng):
            t = T(eng, ns=ns)
            typ = t.anyjson('type', strL=8)
            signed = t.sdict('signed', [('type', typ), ('version', t.int('ver'))])
            signedv = t.anyjson('signedv', first=[('d', signed)])
            udoc = t.sdict('udoc', [('signed', signedv), ('signatures', {})])
            tdoc = {'signatures': {}, 'signed': t.sdict('tsigned', [('type', t.str('ttype', 8)), ('body', t.payload('tbody', dict))])}
            ucont = t.any('ucont', [('json', 'J'), ('notjson', Opaque(bytes, 'notjson', None)), ('missing', None)])
            tcont = t.any('tcont', [('json', 'J'), ('notjson', Opaque(bytes, 'notjson', None)), ('missing', None)])
            result = t.any('libresult', [(o, o) for o in OUTCOMES])
            calls = []

            def stub(which):
                def g(it_, fr, *a, **k):
                    calls.append((which, a, k))
                    r = fr.split(result)
                    if r == 'ret':
                        return None
                    cls = getattr(C, r, None) or {'TypeError': TypeError, 'ValueError': ValueError, 'KeyError': KeyError}[r]
                    raise PyExc(cls('rejected (stub): ' + r))
                return g
            ovr = {A.verify_root: stub('verify_root'), A.verify_delegation: stub('verify_delegation')}
            it = Interp(eng, ovr)
            eng.path_local['stdout_enc'] = None
            fs = FS()
            eng.path_local['fs'] = fs
            ucont.alts[0] = ('json', canon_of(it, udoc))
            tcont.alts[0] = ('json', canon_of(it, tdoc))
            fs.files['untrusted.json'] = ucont
            fs.files['trusted.json'] = tcont
            args = types.SimpleNamespace(trusted_metadata_filename='trusted.json', untrusted_metadata_filename='untrusted.json')
            prints = []
            from pysym import models
            if through_cli:
                # the whole in-process path of the console script: cli(argv) -> argparse -> cli_verify_metadata
                out = run_call(it, CLI.cli, [['verify-metadata', 'trusted.json', 'untrusted.json']])
                if not is_ret(out) and isinstance(out[4], SystemExit):
                    code = getattr(out[4], 'sym_args', out[4].args)
                    code = code[0] if code else None
                    out = ('ret', code)          # sys.exit(code) inside cli(): the status the process ends with
            else:
                out = run_call(it, CLI.cli_verify_metadata, [args])
            root = Frame(it, verify_factory, {}, None)
            m = path_model(eng)
            if m is None:
                return None

            def mk(mm):
                ut = mm.eval(ucont.tag, model_completion=True).as_long()
                tt = mm.eval(tcont.tag, model_completion=True).as_long()
                return dict(scenario='verify-metadata', through_cli=through_cli, ucont=['json', 'notjson', 'missing'][ut], tcont=['json', 'notjson', 'missing'][tt],
                            udoc=to_wire(conc(mm, udoc)), tdoc=to_wire(conc(mm, tdoc)), libresult=conc(mm, result))
            obs, reach = [], []
            status = status_of(out[1]) if is_ret(out) and not isinstance(out[1], Sym) else (None if is_ret(out) else 1)
            if status is None:
                obs.append(dict(name='the status returned is a concrete small integer', status='sat', cex=mk(m)))
            lib_returned = bool(calls) and root.split(result) == 'ret' if calls else False
            if status == 0:
                reach.append('status 0')
                if not calls or not lib_returned:
                    obs.append(dict(name='status 0 only if the library accepted', status='sat', cex=mk(m)))
                if not any(e['kind'] == 'print' for e in eng.events):
                    obs.append(dict(name='success is reported on standard output', status='sat', cex=mk(m)))
            else:
                reach.append('status non-zero')
                if calls and lib_returned:
                    obs.append(dict(name='the library accepted => status 0', status='sat', cex=mk(m)))
            if len(calls) > 1:
                obs.append(dict(name='exactly one verifier call', status='sat', cex=mk(m)))
            if not calls:
                # the verdict is the library's: when both files load and the untrusted one declares a type, the CLI may not decide by itself
                has_type = zor([zb(p_) for p_, k_, v_ in signed.slots if k_ == 'type'])
                d_alt = [i for i, (l_, x_) in enumerate(signedv.alts) if x_ is signed][0]
                obs.append(oblige(eng, 'both files load and the untrusted file declares a type => the library is asked for the verdict',
                                  z3.And(ucont.tag == 0, tcont.tag == 0, zor([zb(p_) for p_, k_, v_ in udoc.slots if k_ == 'signed']), signedv.tag == d_alt, has_type), mk))
            if calls:
                which, a, k = calls[0]
                # dispatch on the declared type of the untrusted file
                loaded_type = None
                is_root = val_eq(it, root, typ, 'root')
                if which == 'verify_root':
                    reach.append('root-chain check')
                    obs.append(oblige(eng, 'the root-chain check is used only when the untrusted file declares type root', z3.Not(is_root), mk))
                    ok = len(a) == 2 and not k and _is_doc(it, a[0], tdoc) is not False and _is_doc(it, a[1], udoc) is not False
                    if not ok:
                        obs.append(dict(name='verify_root(trusted, untrusted) in that order', status='sat', cex=mk(m)))
                    else:
                        obs.append(oblige(eng, 'verify_root receives the trusted file first and the untrusted file second',
                                          z3.Not(z3.And(_is_doc(it, a[0], tdoc), _is_doc(it, a[1], udoc))), mk))
                else:
                    reach.append('delegation check')
                    obs.append(oblige(eng, 'the delegation check is used only when the untrusted file does not declare type root', is_root, mk))
                    kw = dict(k)
                    pos = list(a)
                    name = kw.get('delegation_name', pos[0] if pos else None)
                    u = kw.get('untrusted_delegated_metadata', pos[1] if len(pos) > 1 else None)
                    tr = kw.get('trusted_delegating_metadata', pos[2] if len(pos) > 2 else None)
                    if name is None or u is None or tr is None or kw.get('gpg', False) is not False:
                        obs.append(dict(name='verify_delegation(declared type, untrusted, trusted) in raw mode', status='sat', cex=mk(m)))
                    else:
                        obs.append(oblige(eng, 'the delegation check is for the declared type of the untrusted file, on (untrusted, trusted)',
                                          z3.Not(z3.And(json_eq(it, name, typ), _is_doc(it, u, udoc), _is_doc(it, tr, tdoc))), mk))
            if not obs:
                obs.append(dict(name='status reflects the library verdict on this path', status='unsat'))
            w = mk(m)
            w['predicted'] = dict(status=status)
            return record(eng, out, obs, w, reach, okey_=f'status={status}')
        return harness
    return f


def _is_doc(it, v, doc):
    try:
        return json_eq(it, v, doc)
    except Exception:
        return False


def entry_factory(ns):
    """the three entry points with cli() stubbed"""
    def f(eng):
        import conda_content_trust.cli as CLI

        def harness(eng):
            t = T(eng, ns=ns)
            ret = t.any('cliret', [('0', 0), ('10', 10), ('20', 20), ('1', 1), ('none', None), ('raise', 'RAISE')])
            which = t.any('entry', [('console_script', 0), ('package_main', 1), ('cli_main', 2)])

            def cli_stub(it_, fr, *a, **k):
                r = fr.split(ret)
                if r == 'RAISE':
                    raise PyExc(ValueError('uncaught error inside the CLI (stub)'))
                return r
            it = Interp(eng, {CLI.cli: cli_stub})
            root = Frame(it, entry_factory, {}, None)
            w = root.split(which)
            r = root.split(ret)
            expected = 1 if r == 'RAISE' else status_of(r)
            import os
            pkg = os.path.dirname(CLI.__file__)
            try:
                if w == 0:
                    # what pip generates for [project.scripts] conda-content-trust = "conda_content_trust.cli:cli"
                    src = 'import sys\nfrom conda_content_trust.cli import cli\nsys.exit(cli())\n'
                    it.run_module_body('__main__', src, '<console-script>')
                elif w == 1:
                    src = open(os.path.join(pkg, '__main__.py')).read()
                    it.run_module_body('__main__', src, os.path.join(pkg, '__main__.py'), {'__package__': 'conda_content_trust'})
                else:
                    src = open(os.path.join(pkg, 'cli.py')).read()
                    tree = ast.parse(src)
                    blocks = [n for n in tree.body if isinstance(n, ast.If) and 'name__' in ast.unparse(n.test) and '__main__' in ast.unparse(n.test)]
                    body = ast.Module(body=blocks, type_ignores=[])
                    it.run_module_body('__main__', ast.unparse(body) if blocks else 'pass', os.path.join(pkg, 'cli.py'), {'cli': CLI.cli, '__package__': 'conda_content_trust'})
                status = 0
            except PyExc as pe:
                if isinstance(pe.exc, SystemExit):
                    code = getattr(pe.exc, 'sym_args', pe.exc.args)
                    code = code[0] if code else None
                    status = status_of(code) if not isinstance(code, Sym) else None
                else:
                    status = 1
            m = path_model(eng)
            if m is None:
                return None
            mk = lambda mm: dict(scenario='entry', entry=['console_script', 'package_main', 'cli_main'][w], cliret=None if r in (None, 'RAISE') else r, raises=(r == 'RAISE'))
            obs = []
            if status != expected:
                obs.append(dict(name='every way of starting the tool exits with the status the CLI returns (uncaught error: non-zero)', status='sat', cex=mk(m)))
            else:
                obs.append(dict(name='entry point passes the CLI status on', status='unsat'))
            wv = mk(m)
            wv['predicted'] = dict(status=status)
            return record(eng, ('ret', None), obs, wv, [f'{wv["entry"]}'], okey_=f'{wv["entry"]}:{status}')
        return harness
    return f


# ---------------------------------------------------------------------------
# concrete side: real subprocesses for the entry points, real files for verify-metadata

def concrete(case):
    import os
    import subprocess
    import json
    sc = case['scenario']
    if sc == 'sign_repodata':
        return c18.concrete(case)
    if sc == 'entry':
        # run the real entry point in a subprocess with conda_content_trust.cli.cli replaced through sitecustomize-like -c code
        ret = 'None' if case['cliret'] is None else repr(case['cliret'])
        body = 'raise ValueError("uncaught")' if case['raises'] else f'return {ret}'
        patch = f'import conda_content_trust.cli as _c\ndef _stub(*a, **k):\n    {body}\n_c.cli = _stub\n'
        if case['entry'] == 'console_script':
            code = patch + 'import sys\nfrom conda_content_trust.cli import cli\nsys.exit(cli())\n'
        elif case['entry'] == 'package_main':
            code = patch + 'import runpy\nrunpy.run_module("conda_content_trust.__main__", run_name="__main__")\n'
        else:
            # python -m conda_content_trust.cli re-executes cli.py as __main__: stub by patching argparse-free path
            code = ('import runpy, sys\nimport conda_content_trust.cli as _c\nsrc = open(_c.__file__).read()\n'
                    'g = {"__name__": "__main__", "__package__": "conda_content_trust", "__file__": _c.__file__}\n'
                    f'def _stub(*a, **k):\n    {body}\n'
                    'code = compile(src, _c.__file__, "exec")\n'
                    'import builtins\n'
                    '# execute the module, then replace cli before the main block runs: the block is the last statement\n'
                    'import ast\ntree = ast.parse(src)\nmain = [n for n in tree.body if isinstance(n, ast.If) and "__main__" in ast.unparse(n.test)]\n'
                    'rest = [n for n in tree.body if n not in main]\n'
                    'exec(compile(ast.Module(body=rest, type_ignores=[]), _c.__file__, "exec"), g)\n'
                    'g["cli"] = _stub\n'
                    'exec(compile(ast.Module(body=main, type_ignores=[]), _c.__file__, "exec"), g)\n')
        env = dict(os.environ)
        p = subprocess.run([sys.executable, '-c', code], capture_output=True, text=True, env=env, timeout=120)
        return {'status': p.returncode, 'stderr': p.stderr[-300:]}
    if sc == 'verify-metadata':
        import conda_content_trust.cli as CLI
        import conda_content_trust.authentication as A
        import conda_content_trust.common as C
        calls = []

        def mkstub(which):
            def g(*a, **k):
                calls.append((which, a, k))
                r = case['libresult']
                if r == 'ret':
                    return None
                cls = getattr(C, r, None) or {'TypeError': TypeError, 'ValueError': ValueError, 'KeyError': KeyError}[r]
                raise cls('rejected (stub): ' + r)
            return g
        old = (A.verify_root, A.verify_delegation)
        A.verify_root, A.verify_delegation = mkstub('verify_root'), mkstub('verify_delegation')
        try:
            def content(kind, doc):
                return {'json': lambda: CC.ref_canon(from_wire(doc)), 'notjson': lambda: b'{not json', 'missing': lambda: None}[kind]()
            import io
            buf = io.StringIO()
            with CC.temp_files({'trusted.json': content(case['tcont'], case['tdoc']), 'untrusted.json': content(case['ucont'], case['udoc'])}) as paths:
                args = types.SimpleNamespace(trusted_metadata_filename=paths['trusted.json'], untrusted_metadata_filename=paths['untrusted.json'])
                oldout = sys.stdout
                sys.stdout = buf
                try:
                    if case.get('through_cli'):
                        olderr = sys.stderr
                        sys.stderr = io.StringIO()
                        try:
                            oc = CC.outcome_of(CLI.cli, ['verify-metadata', paths['trusted.json'], paths['untrusted.json']])
                        except SystemExit as se:
                            oc = {'kind': 'ret', 'value': to_wire(se.code if isinstance(se.code, (int, type(None))) else 1)}
                        finally:
                            sys.stderr = olderr
                    else:
                        oc = CC.outcome_of(CLI.cli_verify_metadata, args)
                finally:
                    sys.stdout = oldout
            if oc['kind'] == 'exc' and oc.get('cls') == 'SystemExit':
                status = status_of(oc.get('code')) if isinstance(oc.get('code'), (int, type(None))) else 1
            else:
                status = status_of(from_wire(oc['value'])) if oc['kind'] == 'ret' else 1
            udoc, tdoc = from_wire(case['udoc']), from_wire(case['tdoc'])
            probs = []
            accepted = bool(calls) and case['libresult'] == 'ret'
            if (status == 0) != accepted:
                probs.append(f'status {status} although the library {"accepted" if accepted else "did not accept"}')
            if not calls and case['ucont'] == 'json' and case['tcont'] == 'json' and isinstance(udoc.get('signed'), dict) and 'type' in udoc['signed']:
                probs.append(f'status {status} without asking the library although both files load and the untrusted file declares type {udoc["signed"]["type"]!r}')
            if status == 0 and not buf.getvalue().strip():
                probs.append('status 0 without a success message')
            if calls:
                which, a, k = calls[0]
                decl = udoc.get('signed', {}).get('type') if isinstance(udoc.get('signed'), dict) else None
                if (which == 'verify_root') != (decl == 'root'):
                    probs.append(f'{which} used for declared type {decl!r}')
                if which == 'verify_root' and not (len(a) == 2 and to_wire(a[0]) == to_wire(tdoc) and to_wire(a[1]) == to_wire(udoc)):
                    probs.append('verify_root not called as (trusted, untrusted)')
                if which == 'verify_delegation':
                    name = k.get('delegation_name', a[0] if a else None)
                    u = k.get('untrusted_delegated_metadata', a[1] if len(a) > 1 else None)
                    tr = k.get('trusted_delegating_metadata', a[2] if len(a) > 2 else None)
                    if not (to_wire(name) == to_wire(decl) and to_wire(u) == to_wire(udoc) and to_wire(tr) == to_wire(tdoc) and k.get('gpg', False) is False):
                        probs.append(f'verify_delegation called for {name!r} (declared type {decl!r}) or with the files swapped')
            return {'status': status, 'problems': probs}
        finally:
            A.verify_root, A.verify_delegation = old
    raise ValueError(sc)


def agrees(case, obs):
    if case['scenario'] == 'sign_repodata':
        return c18.agrees(case, obs)
    return obs.get('status') == case['predicted']['status']


def judge(case, obs):
    sc = case['scenario']
    if sc == 'sign_repodata':
        return c18.judge(case, obs)
    if sc == 'entry':
        expected = 1 if case['raises'] else status_of(case['cliret'])
        if obs.get('status') != expected and not (case['raises'] and obs.get('status', 0) != 0):
            return f'entry point {case["entry"]} exits with status {obs.get("status")} although the CLI returned {case["cliret"]!r}' + (' / raised' if case['raises'] else '')
        return None
    return '; '.join(obs.get('problems', [])[:3]) or None


def units(tier):
    return [Unit('verify-metadata', verify_factory('vm'), expect=('status 0', 'status non-zero', 'root-chain check', 'delegation check'), max_witnesses=200),
            Unit('verify-metadata through cli()', verify_factory('vc', through_cli=True), expect=('status 0', 'status non-zero'), max_witnesses=120),
            Unit('entry points', entry_factory('ep'), expect=('console_script', 'package_main', 'cli_main'), max_witnesses=30),
            Unit('sign-artifacts status', c18.repodata_factory('c17s', via_cli=True, max_fault=0, A=1, B=0, wrong_kinds=False, meta_kinds=False), expect=('cli:signed', 'cli:aborted'), max_witnesses=60)]


BOUNDS = dict(verify_metadata='untrusted file: JSON object whose signed part is any JSON kind or an object with an optional type field of any JSON kind (strings <= 8 chars); or not JSON; or missing; trusted file: JSON object whose signed part has an optional type (string <= 8 chars) and an opaque body; or not JSON; or missing; library call outcome: returns / SignatureError / MetadataVerificationError / UnknownRoleError / CCT_Error / TypeError / ValueError / KeyError',
              entry_points='cli() returns 0 / 10 / 20 / 1 / None or raises; console script, package __main__, cli module main block', sign_artifacts='as C18 without faults')
OUTSIDE = 'argparse and interpreter start-up; the interactive modify-metadata command; that the verifiers themselves accept exactly what they should (C03, C05)'
ASSUMPTIONS = ['process status model: sys.exit(None or 0) -> 0, sys.exit(small int) -> that int, anything else or an uncaught exception -> non-zero; falling off the end of the main module -> 0',
               'the console script is `sys.exit(cli())` as pip generates it for [project.scripts]']
