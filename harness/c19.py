"""C19 -- key material round-trips losslessly (plumbing; RFC 8032 conformance of the crypto library is not reachable).

The key helper class methods (to_bytes / from_bytes / to_hex / from_hex / is_equivalent_to), checkformat_key,
keyfiles_to_bytes / keyfiles_to_keys and gen_and_write_keys are interpreted with the crypto boundary stubbed:
from_private_bytes / from_public_bytes accept exactly 32 bytes and give a key object carrying them,
private_bytes(Raw, Raw) / public_bytes(Raw, Raw) return them (any other encoding is a different, unrelated value).
Inputs: symbolic byte strings of 0..34 bytes, symbolic hex strings of <= 66 characters over all of Unicode, values of
any kind; key files on the in-memory file system."""
import z3
from pysym.values import *
from pysym.interp import Interp, Frame
from pysym.tmpl import T, conc, EXOTIC
from pysym.models import val_eq, bytes_eq, bytes_len, canon, mk_hex_bytes, hex_view
from pysym.stubs import FS, public_of
from pysym.hutil import *
from pysym.framework import Unit
from pysym import concrete as CC
from pysym.wire import to_wire, from_wire

ID = 'C19'


def bytes_factory(ns, private):
    def f(eng):
        import conda_content_trust.common as C
        from harness import lemmas
        ovr = lemmas.overrides(eng)
        K = C.PrivateKey if private else C.PublicKey

        def harness(eng):
            t = T(eng, ns=ns)
            b = t.raw_bytes('b', 34)
            b2 = t.raw_bytes('b2', 32)
            eng.add(b2.n == 32)
            arg = t.any('arg', [('bytes', b)] + t.json_leafs('argv', 2, EXOTIC))
            it = Interp(eng, ovr)
            root = Frame(it, bytes_factory, {}, None)
            out = run_call(it, K.from_bytes, [arg])
            obs, reach, structural = [], [], []
            mk = lambda mm: dict(scenario='bytes', private=private, arg=to_wire(conc(mm, arg)), other=conc(mm, b2).hex())
            is_bytes32 = z3.And(arg.tag == 0, b.n == 32)
            if is_ret(out):
                reach.append('key built')
                key = out[1]
                obs.append(oblige(eng, 'a key object is built only from exactly 32 bytes', z3.Not(is_bytes32), mk))
                rb = run_call(it, K.to_bytes, [key])
                hx = run_call(it, K.to_hex, [key])
                if not is_ret(rb) or not is_ret(hx):
                    structural.append('to_bytes / to_hex of a freshly built key raised')
                else:
                    obs.append(oblige(eng, 'to_bytes(from_bytes(b)) == b', z3.Not(bytes_eq(it, rb[1], b)), mk))
                    h = hx[1]
                    if not isinstance(h, (SStr, str)):
                        structural.append('to_hex returns a string')
                    else:
                        obs.append(oblige(eng, 'to_hex gives 64 lower-case hex characters', z3.Not(canon(h, 64)), mk))
                        obs.append(oblige(eng, 'to_hex spells exactly the key bytes', z3.Not(bytes_eq(it, mk_hex_bytes(it, h), b)), mk))
                        k2 = run_call(it, K.from_hex, [h])
                        if not is_ret(k2):
                            obs.append(oblige(eng, 'from_hex(to_hex(k)) succeeds', True, mk))
                        else:
                            rb2 = run_call(it, K.to_bytes, [k2[1]])
                            obs.append(oblige(eng, 'from_hex(to_hex(k)) has the same bytes', z3.Not(bytes_eq(it, rb2[1], b)) if is_ret(rb2) else True, mk))
                            e1 = run_call(it, K.is_equivalent_to, [key, k2[1]])
                            e2 = run_call(it, K.is_equivalent_to, [k2[1], key])
                            e0 = run_call(it, K.is_equivalent_to, [key, key])
                            for name, e in (('equivalence holds after a hex round trip', e1), ('equivalence is symmetric', e2), ('equivalence is reflexive', e0)):
                                if not is_ret(e):
                                    obs.append(oblige(eng, name, True, mk))
                                else:
                                    v = e[1].e if isinstance(e[1], SBool) else z3.BoolVal(bool(e[1]))
                                    obs.append(oblige(eng, name, z3.Not(v), mk))
                            other = run_call(it, K.from_bytes, [b2])
                            if is_ret(other):
                                d1 = run_call(it, K.is_equivalent_to, [key, other[1]])
                                d2 = run_call(it, K.is_equivalent_to, [other[1], key])
                                same = bytes_eq(it, b, b2)
                                for e in (d1, d2):
                                    if is_ret(e):
                                        v = e[1].e if isinstance(e[1], SBool) else z3.BoolVal(bool(e[1]))
                                        obs.append(oblige(eng, 'two keys are equivalent exactly when their bytes are equal', v != same, mk))
                                    else:
                                        obs.append(oblige(eng, 'equivalence of two keys of the same kind is decided', True, mk))
                            # a key of the other kind is never equivalent
                            OK_ = C.PublicKey if private else C.PrivateKey
                            ok = run_call(it, OK_.from_bytes, [b])
                            if is_ret(ok):
                                x = run_call(it, K.is_equivalent_to, [key, ok[1]])
                                if is_ret(x):
                                    v = x[1].e if isinstance(x[1], SBool) else z3.BoolVal(bool(x[1]))
                                    obs.append(oblige(eng, 'a private and a public key are never equivalent', v, mk))
                            ck = run_call(it, C.checkformat_key, [key])
                            if not is_ret(ck):
                                obs.append(oblige(eng, 'checkformat_key accepts key objects', True, mk))
            else:
                reach.append('rejected:' + out[1])
                obs.append(oblige(eng, '32 bytes are accepted as key material', is_bytes32, mk))
            m = path_model(eng)
            if m is None:
                return None
            for name in structural:
                obs.append(dict(name=name, status='sat', cex=mk(m)))
            w = mk(m)
            w['predicted'] = predicted(out)
            return record(eng, out, obs, w, reach)
        return harness
    return f


def hex_factory(ns, private):
    def f(eng):
        import conda_content_trust.common as C
        from harness import lemmas
        from harness.c15 import exotic_pool
        ovr = lemmas.overrides(eng)
        K = C.PrivateKey if private else C.PublicKey

        def harness(eng):
            t = T(eng, ns=ns)
            s = t.str('h', 66)
            arg = t.any('arg', [('str', s)] + t.json_leafs('argv', 2, exotic_pool((64,))))
            it = Interp(eng, ovr)
            out = run_call(it, K.from_hex, [arg])
            good = z3.And(arg.tag == 0, canon(s, 64))
            mk = lambda mm: dict(scenario='hex', private=private, arg=to_wire(conc(mm, arg)))
            obs = []
            if is_ret(out):
                obs.append(oblige(eng, 'from_hex accepts only 64 lower-case hex characters', z3.Not(good), mk))
                hx = run_call(it, K.to_hex, [out[1]])
                if not is_ret(hx):
                    obs.append(oblige(eng, 'to_hex(from_hex(s)) succeeds', True, mk))
                else:
                    obs.append(oblige(eng, 'to_hex(from_hex(s)) == s', z3.Not(val_eq(it, None, hx[1], s)), mk))
                # the same 32 bytes are a legal value for the other kind of key too: converting them there, in the same process,
                # gives a key of THAT kind (private and public keys never stand in for each other)
                O = C.PublicKey if private else C.PrivateKey
                other = run_call(it, O.from_hex, [arg])
                again = run_call(it, K.from_hex, [arg])
                kinds_ok = is_ret(other) and is_ret(again) and isinstance(other[1], KeyObj) and isinstance(again[1], KeyObj) and other[1].private == (not private) and again[1].private == private
                if not kinds_ok:
                    obs.append(oblige(eng, 'from_hex gives a key object of the class it was called on, whatever was converted before', True, mk))
            else:
                obs.append(oblige(eng, 'from_hex accepts every canonical key string', good, mk))
                if not documented(out):
                    obs.append(oblige(eng, 'malformed key encodings are rejected with TypeError / ValueError', True, mk))
                # something that is not a key object is never "equivalent" to anything, itself included (wrong types are rejected)
                eq = run_call(it, K.is_equivalent_to, [arg, arg])
                if is_ret(eq):
                    v = eq[1].e if isinstance(eq[1], SBool) else z3.BoolVal(bool(eq[1]))
                    obs.append(oblige(eng, 'a value that is not a key object is never reported equivalent', v, mk))
            m = path_model(eng)
            if m is None:
                return None
            w = mk(m)
            w['predicted'] = predicted(out)
            return record(eng, out, obs, w, ['accepted'] if is_ret(out) else ['rejected:' + out[1]])
        return harness
    return f


def files_factory(ns):
    def f(eng):
        import conda_content_trust.common as C
        import conda_content_trust.metadata_construction as MC

        def harness(eng):
            it = Interp(eng)
            fs = FS()
            eng.path_local['fs'] = fs
            eng.path_local['gen_unrolled'] = True
            # what the two paths held before (a key file is usually re-written over an older one)
            t = T(eng, ns=ns)
            pre = {sfx: t.any('pre' + sfx, [('missing', None), ('bytes', t.raw_bytes('old' + sfx, 36))]) for sfx in ('.pri', '.pub')}
            for sfx, v in pre.items():
                fs.files['my.key' + sfx] = v
            g = run_call(it, MC.gen_and_write_keys, ['my.key'])
            obs, structural = [], []
            seed_of = lambda mm: conc(mm, g[1][0].raw).hex() if is_ret(g) and isinstance(g[1], tuple) and g[1] and isinstance(g[1][0], KeyObj) and g[1][0].raw.kind == 'raw' else None
            pre_of = lambda mm, v: (lambda x: None if x is None else x.hex())(conc(mm, v))
            mk = lambda mm: dict(scenario='files', seed=seed_of(mm), pre={sfx: pre_of(mm, v) for sfx, v in pre.items()})
            if not is_ret(g) or not isinstance(g[1], tuple) or len(g[1]) != 2:
                structural.append('gen_and_write_keys returns (private, public)')
            else:
                priv, pub = g[1]
                l = run_call(it, C.keyfiles_to_keys, ['my.key'])
                if not is_ret(l) or not isinstance(l[1], tuple) or len(l[1]) != 2:
                    structural.append('keyfiles_to_keys loads the files just written')
                else:
                    p2, u2 = l[1]
                    for name, a, b, K in (('the private key file loads back as an equivalent key', priv, p2, C.PrivateKey), ('the public key file loads back as an equivalent key', pub, u2, C.PublicKey)):
                        e = run_call(it, K.is_equivalent_to, [a, b])
                        if not is_ret(e):
                            structural.append(name)
                        else:
                            v = e[1].e if isinstance(e[1], SBool) else z3.BoolVal(bool(e[1]))
                            obs.append(oblige(eng, name, z3.Not(v), mk))
                    pubof = public_of(it, priv) if isinstance(priv, KeyObj) else None
                    if pubof is None or not isinstance(pub, KeyObj):
                        structural.append('generated keys are ed25519 key objects')
                    else:
                        obs.append(oblige(eng, 'the public key written is the public key of the private key written', z3.Not(bytes_eq(it, pub.raw, pubof.raw)), mk))
                    # the documented file names: <name>.pri and <name>.pub (the name may contain dots) hold the raw key bytes
                    fpri, fpub = fs.files.get('my.key.pri'), fs.files.get('my.key.pub')
                    if not isinstance(fpri, (SBytes, bytes)) or not isinstance(fpub, (SBytes, bytes)):
                        structural.append('the keys are written to <name>.pri and <name>.pub')
                    else:
                        obs.append(oblige(eng, '<name>.pri / <name>.pub hold the raw 32-byte values', z3.Not(z3.And(bytes_eq(it, fpri, priv.raw), bytes_eq(it, fpub, pub.raw))), mk))
                    b = run_call(it, C.keyfiles_to_bytes, ['my.key'])
                    if is_ret(b) and isinstance(b[1], tuple):
                        obs.append(oblige(eng, 'keyfiles_to_bytes returns the raw 32-byte values', z3.Not(z3.And(bytes_eq(it, b[1][0], priv.raw), bytes_eq(it, b[1][1], pub.raw))), mk))
            m = path_model(eng)
            if m is None:
                return None
            for name in structural:
                obs.append(dict(name=name, status='sat', cex=mk(m)))
            w = mk(m)
            w['predicted'] = {'kind': 'ret'}
            return record(eng, g, obs, w, ['written and loaded'])
        return harness
    return f


# ---------------------------------------------------------------------------
# concrete side (real cryptography library)

def concrete(case):
    import conda_content_trust.common as C
    import conda_content_trust.metadata_construction as MC
    probs = []
    sc = case['scenario']
    if sc == 'files':
        import os
        with CC.temp_files({}) as paths:
            import tempfile
            d = tempfile.mkdtemp(prefix='cct-verif-keys-', dir='/var/tmp')
            try:
                base = os.path.join(d, 'my.key')
                for sfx, hx in (case.get('pre') or {}).items():
                    if hx is not None:
                        with open(base + sfx, 'wb') as fo:
                            fo.write(bytes.fromhex(hx))
                if case.get('seed'):
                    # the key the solver chose: generation is the environment (any 32 bytes are a valid seed)
                    from cryptography.hazmat.primitives.asymmetric import ed25519 as _ed
                    seed = bytes.fromhex(case['seed'])
                    oldgen = _ed.Ed25519PrivateKey.__dict__['generate']
                    _ed.Ed25519PrivateKey.generate = classmethod(lambda cls: cls.from_private_bytes(seed))
                    try:
                        priv, pub = MC.gen_and_write_keys(base)
                    finally:
                        _ed.Ed25519PrivateKey.generate = oldgen
                else:
                    priv, pub = MC.gen_and_write_keys(base)
                try:
                    p2, u2 = C.keyfiles_to_keys(base)
                    if not C.PrivateKey.is_equivalent_to(priv, p2) or not C.PublicKey.is_equivalent_to(pub, u2):
                        probs.append('key files do not load back as equivalent keys')
                except Exception as e:
                    probs.append(f'the key files just written do not load: {type(e).__name__}: {e}')
                try:
                    if open(base + '.pri', 'rb').read() != C.PrivateKey.to_bytes(priv) or open(base + '.pub', 'rb').read() != C.PublicKey.to_bytes(pub):
                        probs.append('<name>.pri / <name>.pub do not hold the raw key bytes')
                except OSError as e:
                    probs.append(f'the keys were not written to <name>.pri / <name>.pub: {type(e).__name__}')
                if C.PublicKey.to_bytes(priv.public_key()) != C.PublicKey.to_bytes(pub):
                    probs.append('public key written is not the public key of the private key')
                try:
                    if C.keyfiles_to_bytes(base) != (C.PrivateKey.to_bytes(priv), C.PublicKey.to_bytes(pub)):
                        probs.append('keyfiles_to_bytes does not return the raw values')
                except Exception as e:
                    probs.append(f'keyfiles_to_bytes failed on the files just written: {type(e).__name__}')
            finally:
                import shutil
                shutil.rmtree(d, ignore_errors=True)
        return {'outcome': {'kind': 'ret'}, 'problems': probs}
    K = C.PrivateKey if case['private'] else C.PublicKey
    arg = from_wire(case['arg'])
    if sc == 'bytes':
        oc = CC.outcome_of(K.from_bytes, arg)
        good = isinstance(arg, (bytes, bytearray)) and len(arg) == 32
        if oc['kind'] == 'ret':
            if not good:
                probs.append(f'from_bytes accepted {arg!r:.60}')
            else:
                key = K.from_bytes(arg)
                if K.to_bytes(key) != bytes(arg):
                    probs.append('to_bytes(from_bytes(b)) != b')
                h = K.to_hex(key)
                if h != bytes(arg).hex():
                    probs.append('to_hex does not spell the key bytes in lower-case hex')
                k2 = K.from_hex(h)
                if K.to_bytes(k2) != bytes(arg) or not K.is_equivalent_to(key, k2) or not K.is_equivalent_to(k2, key) or not K.is_equivalent_to(key, key):
                    probs.append('hex round trip / equivalence broken')
                other = K.from_bytes(bytes.fromhex(case['other']))
                if K.is_equivalent_to(key, other) != (bytes(arg) == bytes.fromhex(case['other'])) or K.is_equivalent_to(other, key) != (bytes(arg) == bytes.fromhex(case['other'])):
                    probs.append('equivalence of two keys does not follow their bytes')
                O = C.PublicKey if case['private'] else C.PrivateKey
                try:
                    if K.is_equivalent_to(key, O.from_bytes(bytes(arg))):
                        probs.append('a private and a public key reported equivalent')
                except Exception:
                    pass
        elif good:
            probs.append(f'32 bytes rejected: {oc["cls"]}')
        return {'outcome': oc, 'problems': probs}
    if sc == 'hex':
        import re
        oc = CC.outcome_of(K.from_hex, arg)
        good = isinstance(arg, str) and '\n' not in arg and re.fullmatch('[0-9a-f]{64}', arg, re.ASCII) is not None
        if oc['kind'] == 'ret':
            if not good:
                probs.append(f'from_hex accepted the malformed key encoding {arg!r:.80}')
            elif K.to_hex(K.from_hex(arg)) != arg:
                probs.append('to_hex(from_hex(s)) != s')
            else:
                from cryptography.hazmat.primitives.asymmetric import ed25519 as _ed
                O = C.PublicKey if case['private'] else C.PrivateKey
                want = {True: _ed.Ed25519PrivateKey, False: _ed.Ed25519PublicKey}
                try:
                    other, again = O.from_hex(arg), K.from_hex(arg)
                    if not isinstance(other, want[not case['private']]) or not isinstance(again, want[case['private']]):
                        probs.append(f'from_hex of {O.__name__} / {K.__name__} on the same string returned {type(other).__name__} / {type(again).__name__}')
                except Exception as e:
                    probs.append(f'converting the same 64 hex characters as the other kind of key raised {type(e).__name__}')
        else:
            if good:
                probs.append(f'canonical key string rejected: {oc["cls"]}')
            elif not CC.documented(oc):
                probs.append(f'malformed key encoding rejected with {oc["cls"]}')
            try:
                if K.is_equivalent_to(arg, arg):
                    probs.append(f'is_equivalent_to reports the non-key value {arg!r:.60} equivalent to itself')
            except Exception:
                pass
        return {'outcome': oc, 'problems': probs}
    raise ValueError(sc)


def agrees(case, obs):
    return 'outcome' in obs and CC.same_outcome(case.get('predicted'), obs['outcome'])


def judge(case, obs):
    return '; '.join(obs.get('problems', [])[:3]) or None


def post(res, tier):
    """assumption check (NOT a solver result): the installed crypto library reproduces RFC 8032 section 7.1 TEST 1-3"""
    from cryptography.hazmat.primitives.asymmetric import ed25519
    from cryptography.hazmat.primitives import serialization as Z
    import conda_content_trust.common as C
    vec = [('9d61b19deffd5a60ba844af492ec2cc44449c5697b326919703bac031cae7f60', 'd75a980182b10ab7d54bfed3c964073a0ee172f3daa62325af021a68f707511a', '',
            'e5564300c360ac729086e2cc806e828a84877f1eb8e5d974d873e065224901555fb8821590a33bacc61e39701cf9b46bd25bf5f0595bbe24655141438e7a100b'),
           ('4ccd089b28ff96da9db6c346ec114e0f5b8a319f35aba624da8cf6ed4fb8a6fb', '3d4017c3e843895a92b70aa74d1b7ebc9c982ccf2ec4968cc0cd55f12af4660c', '72',
            '92a009a9f0d4cab8720e820b5f642540a2b27b5416503f8fb3762223ebdb69da085ac1e43e15996e458f3613d0f11d8c387b2eaeb4302aeeb00d291612bb0c00'),
           ('c5aa8df43f9f837bedb7442f31dcb7b166d38535076f094b85ce3a2e0b4458f7', 'fc51cd8e6218a1a38da47ed00230f0580816ed13ba3303ac5deb911548908025', 'af82',
            '6291d657deec24024827e69c3abe01a30ce548a284743a445e3680d7db5ac3ac18ff9b538d16f290ae67f760984dc6594a7c15e9716ed28dc027beceea1ec40a')]
    ok = True
    for seed, pub, msg, sig in vec:
        k = C.PrivateKey.from_hex(seed)
        ok &= C.PublicKey.to_hex(k.public_key()) == pub and k.sign(bytes.fromhex(msg)).hex() == sig
    res.extra['rfc8032_known_answers'] = dict(what='RFC 8032 section 7.1 TEST 1-3 through PrivateKey.from_hex / to_hex / sign (concrete assumption check, not a solver result)', passed=bool(ok))
    if not ok:
        res.errors.append('RFC 8032 known-answer check failed: the crypto stub axioms do not describe this library')


def units(tier):
    return [Unit('private:bytes', bytes_factory('pb', True), expect=('key built', 'rejected:ValueError', 'rejected:TypeError'), max_witnesses=80),
            Unit('public:bytes', bytes_factory('ub', False), expect=('key built', 'rejected:ValueError', 'rejected:TypeError'), max_witnesses=80),
            Unit('private:hex', hex_factory('ph', True), expect=('accepted', 'rejected:ValueError', 'rejected:TypeError'), max_witnesses=80),
            Unit('public:hex', hex_factory('uh', False), expect=('accepted', 'rejected:ValueError', 'rejected:TypeError'), max_witnesses=80),
            Unit('key files', files_factory('kf'), expect=('written and loaded',), max_witnesses=5)]


BOUNDS = dict(bytes='symbolic byte strings of 0..34 bytes (so 31, 32, 33 are inside), and values of any JSON kind / type-confusion pool', hex='strings <= 66 characters over all of Unicode and non-strings (incl. bytes holding valid hex)',
              files='one generated key pair (the 32 private bytes symbolic) written to and loaded from the in-memory file system, each of the two paths missing or holding 0..36 arbitrary older bytes')
OUTSIDE = 'that the derived public key and the signatures equal those RFC 8032 defines for the seed: that is SHA-512 and curve arithmetic inside the crypto library, far beyond a solver budget and not repository code; it is only spot-checked concretely against the RFC test vectors (coverage.rfc8032_known_answers)'
ASSUMPTIONS = ['crypto boundary contract: from_*_bytes accept exactly 32 bytes; *_bytes(Raw, Raw) return them; Pub is a function of the private bytes (injective)']
