"""C03 -- a root update is accepted iff version + 1 and signed per the old and the new root rules (see harness/vdeleg.py)"""
import sys
from pysym.framework import Unit
from pysym import concrete as CC
from harness import vdeleg

ID = 'C03'
PROPS = ('C03',)


def configs(tier):
    q = tier == 'quick'
    cs = [('verify_root:R2', 'r2', dict(R=2, M=1, N=1, ver_kinds=('int', 'float'), ver_kinds_U=('int', 'bool')), {}, ('accepts', 'rejects:MetadataVerificationError', 'rejects:SignatureError', 'rejects:ValueError'), 300)]
    if not q:
        cs.append(('verify_root:R2M2N2', 'r22', dict(R=2, M=2, N=2, thr_kinds=('int', 'bool', 'float')), {}, ('accepts',), 800))
    return cs


def pre(res, tier):
    lem = []
    for name, ns, kw, extra, expect, nw in configs(tier):
        lem += vdeleg.lemma_units('vr', ns, **kw)
    vdeleg.prove_checker_lemmas(res, sys.modules[__name__], lem)


def units(tier):
    return [Unit(name, vdeleg.factory_vr(ns, PROPS, **extra, **kw), expect=expect, max_witnesses=nw) for name, ns, kw, extra, expect, nw in configs(tier)]


def concrete(case):
    if case.get('scenario') == 'lemma':
        return {}
    return vdeleg.run_vr(case)


def agrees(case, obs):
    return 'outcome' in obs and CC.same_outcome(case.get('predicted'), obs['outcome'])


def judge(case, obs):
    if case.get('scenario') == 'lemma':
        return None
    return vdeleg.judge_vr(case, obs, PROPS)


BOUNDS = dict(documents='trusted and offered root: delegating metadata with 2 roles of free names (so "root" may be missing on either side), 1 (quick) / 2 (thorough) free keys each, int thresholds (thorough: bool / binary64), free declared types (<= 8 chars), versions: trusted int / binary64, offered int / bool (quick); int / bool / binary64 on both sides (thorough); binary64 holes range over NaN, +-inf and finite values of magnitude < 2**62',
              signatures='1 (quick) / 2 (thorough) entries under free keys, raw- or OpenPGP-shaped with free strings')
OUTSIDE = 'more roles / keys / entries than stated; ed25519 forgeability (Valid uninterpreted)'
ASSUMPTIONS = ['A2, A3; version + 1 is compared in exact integer arithmetic by the oracle (the code is interpreted with IEEE-754 binary64 semantics for float versions)',
               'the <= direction is asserted for int-typed thresholds only (a float threshold passes the checker and is then rejected by verify_signable: fail-closed)',
               'the checker is replaced by the C14 schema on a template only after `checker accepts <=> schema` was proved for that very template in the same run']
