"""C03 -- a root update is accepted iff version + 1 and signed per the old and the new root rules (see harness/vdeleg.py)"""
from pysym.framework import Unit
from pysym import concrete as CC
from harness import vdeleg

ID = 'C03'
PROPS = ('C03',)


def units(tier):
    q = tier == 'quick'
    us = [Unit('verify_root:R2', vdeleg.factory_vr('r2', PROPS, R=2, M=1, N=1),
               expect=('accepts', 'rejects:MetadataVerificationError', 'rejects:SignatureError', 'rejects:ValueError'), max_witnesses=300)]
    if not q:
        us.append(Unit('verify_root:R2M2N2', vdeleg.factory_vr('r22', PROPS, R=2, M=2, N=2, thr_kinds=('int', 'bool', 'float')), expect=('accepts',), max_witnesses=800))
    return us


def concrete(case):
    return vdeleg.run_vr(case)


def agrees(case, obs):
    return 'outcome' in obs and CC.same_outcome(case.get('predicted'), obs['outcome'])


def judge(case, obs):
    return vdeleg.judge_vr(case, obs, PROPS)


BOUNDS = dict(documents='trusted and offered root: delegating metadata with 2 roles of free names (so "root" may be missing on either side), 1 (quick) / 2 (thorough) free keys each, int thresholds (thorough: bool / binary64), free declared types (<= 8 chars), versions int / bool / all of binary64',
              signatures='1 (quick) / 2 (thorough) entries under free keys, raw- or OpenPGP-shaped with free strings')
OUTSIDE = 'more roles / keys / entries than stated; ed25519 forgeability (Valid uninterpreted)'
ASSUMPTIONS = ['A2, A3; version + 1 is compared in exact integer arithmetic by the oracle (the code is interpreted with IEEE-754 binary64 semantics for float versions)',
               'the <= direction is asserted for int-typed thresholds only (a float threshold passes the checker and is then rejected by verify_signable: fail-closed)']
