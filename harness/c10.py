"""C10 -- OpenPGP-wrapped signatures follow RFC 4880 v4 hashing and interoperate with the GPG signing path.

 (1) verify_gpg_signature is interpreted on symbolic payload BYTES (unrolled), a signature entry of free strings, a free
     key string; it must return exactly when entry and key are well formed and
     Valid(unhex(key), unhex(signature), SHA256(data || unhex(other_headers) || 04 ff || be32(len(unhex(other_headers))))).
     The digest the code computes and the digest of the statement are compared as flattened byte strings, so any
     change of the framing (byte order, trailer, which length, order of the parts) separates them.
 (2) transcription: sign_via_gpg / sign_root_metadata_dict_via_gpg / fetch_keyval_from_gpg are interpreted with
     securesystemslib stubbed (create_signature / export_pubkey return arbitrary dictionaries satisfying the
     library's schema, or the library is unavailable): the entry stored is {other_headers, signature[, see_also]}
     filed under the raw key q, passes the entry format check, keyid is gone, and -- given that the OpenPGP signature
     is valid over the RFC 4880 digest (the assumption about GnuPG) -- verify_signable(gpg=True) accepts it."""
import z3
from pysym.values import *
from pysym.interp import Interp, PyExc
from pysym.tmpl import T, conc, freeze
from pysym.models import canon, canon_even, bytes_eq, mk_hex_bytes, val_eq, contains
from pysym.stubs import canon_of, valid
from pysym.hutil import *
from pysym.framework import Unit
from pysym import concrete as CC
from pysym.wire import to_wire, from_wire
from harness import vsign

ID = 'C10'


def digest_of(data, oh):
    return SBytes('digest', alg='SHA256', parts=[data, SBytes('hex', src=oh), b'\x04\xff', SBytes('packed', fmt='>I', e=oh.n / 2)])


def primitive_factory(ns, Ldata, Loh):
    def f(eng):
        import conda_content_trust.authentication as A
        from harness import lemmas
        ovr = lemmas.overrides(eng)

        def harness(eng):
            t = T(eng, ns=ns)
            data = t.raw_bytes('data', Ldata)
            sig, oh, sa, key = t.str('sig', 130), t.str('oh', Loh), t.str('sa', 42), t.str('key', 66)
            entry = t.sdict('entry', [('signature', sig), ('other_headers', oh), ('see_also', sa), ('zz', None)])
            freeze(entry)
            it = Interp(eng, ovr)
            out = run_call(it, A.verify_gpg_signature, [entry, key, data])
            (ps, _), (po, _), (pa, _), (pz, _) = [(zb(s[0]), s[2]) for s in entry.slots]
            wf = z3.And(ps, po, z3.Not(pz), canon(sig, 128), canon_even(oh), z3.Or(z3.Not(pa), canon(sa, 40)), canon(key, 64))
            v = valid(it, mk_hex_bytes(it, key), mk_hex_bytes(it, sig), digest_of(data, oh))
            good = z3.And(wf, v)
            m = path_model(eng)
            if m is None:
                return None
            mk = lambda mm: dict(scenario='primitive', entry=to_wire(conc(mm, entry)), key=conc(mm, key), data=conc(mm, data).hex(),
                                 env=dict(valid=vsign.valid_table(eng, mm)))
            obs = []
            if is_ret(out):
                obs.append(oblige(eng, 'valid exactly when the 64-byte signature verifies over SHA-256(data || headers || 04 ff || be32(len headers)) under the raw key', z3.Not(good), mk))
            else:
                obs.append(oblige(eng, 'a well-formed entry whose signature verifies over the RFC 4880 digest is accepted', good, mk))
                if not documented(out, extra=('InvalidSignature',)):
                    obs.append(oblige(eng, 'rejections are TypeError / ValueError / InvalidSignature', True, mk))
            w = mk(m)
            w['predicted'] = predicted(out)
            return record(eng, out, obs, w, ['valid'] if is_ret(out) else ['rejected:' + out[1]])
        return harness
    return f


# ---------------------------------------------------------------------------
# transcription through the GPG signing path (securesystemslib stubbed)

def _create_signature(*a, **k):       # placeholders identified by the interpreter overrides
    raise RuntimeError('stub')


def _export_pubkey(*a, **k):
    raise RuntimeError('stub')


class _GpgFuncs:
    create_signature = staticmethod(_create_signature)
    export_pubkey = staticmethod(_export_pubkey)


def transcribe_factory(ns):
    def f(eng):
        import conda_content_trust.root_signing as RS
        import conda_content_trust.authentication as A
        import conda_content_trust.common as C
        from harness import lemmas

        def harness(eng):
            t = T(eng, ns=ns)
            fpr = t.str('fpr', 42)
            keyid, oh, sig, q = t.str('keyid', 42), t.str('oh', 6), t.str('sig', 130), t.str('q', 66)
            avail = t.bool('sslib')
            fails = t.bool('gpgfails')
            payload = t.payload('root', dict)
            prior = t.sdict('prior', [(t.str('pk', 66), {'other_headers': t.str('poh', 4), 'signature': t.str('psig', 130)})])
            signable = {'signatures': prior, 'signed': payload}
            # securesystemslib's GPG_SIGNATURE_SCHEMA / pubkey schema
            eng.add(canon(keyid, 40), canon_even(oh), canon(sig, 128), canon(q, 64))
            calls = []

            def create_signature(it_, fr, data, fp, *a, **k):
                it_.step('create_signature')
                calls.append(('create_signature', data, fp))
                if it_.eng.fork(fails.e):
                    raise PyExc(ValueError('gpg failed (stub)'))
                return {'keyid': keyid, 'other_headers': oh, 'signature': sig}

            def export_pubkey(it_, fr, fp, *a, **k):
                it_.step('export_pubkey')
                calls.append(('export_pubkey', fp))
                return {'type': 'eddsa', 'method': 'pgp+eddsa-ed25519', 'keyid': keyid, 'keyval': {'private': '', 'public': {'q': q}}}
            ovr = lemmas.overrides(eng)
            ovr[_create_signature] = create_signature
            ovr[_export_pubkey] = export_pubkey
            it = Interp(eng, ovr)
            it.shadow_globals[('conda_content_trust.root_signing', 'gpg_funcs')] = _GpgFuncs
            it.shadow_globals[('conda_content_trust.root_signing', 'SSLIB_AVAILABLE')] = avail
            before_prior = [(sl[0], sl[1], sl[2]) for sl in prior.slots]
            out = run_call(it, RS.sign_root_metadata_dict_via_gpg, [signable, fpr])
            obs = []
            mk = lambda mm: dict(scenario='transcribe', fpr=conc(mm, fpr), keyid=conc(mm, keyid), oh=conc(mm, oh), sig=conc(mm, sig), q=conc(mm, q),
                                 avail=bool(z3.is_true(mm.eval(avail.e, model_completion=True))), fails=bool(z3.is_true(mm.eval(fails.e, model_completion=True))),
                                 payload=to_wire(conc(mm, payload)), prior=to_wire(conc(mm, prior)))
            structural = []
            reach = []
            if is_ret(out):
                reach.append('signed')
                sigs = signable['signatures']
                has = contains(it, None, sigs, q)
                has = has.e if isinstance(has, SBool) else z3.BoolVal(bool(has))
                obs.append(oblige(eng, 'the entry is filed under the raw public key value q', z3.Not(has), mk))
                from pysym.models import getitem
                try:
                    from pysym.interp import Frame
                    ent = getitem(it, Frame(it, transcribe_factory, {}, None), sigs, q)
                except PyExc:
                    ent = None
                if ent is None:
                    structural.append('no entry under q')
                else:
                    ent_slots = ent.slots if isinstance(ent, SDict) else [[True, k, v] for k, v in ent.items()]
                    names = sorted(sl[1] for sl in ent_slots if not (isinstance(sl[0], bool) and not sl[0]))
                    if names not in (['other_headers', 'signature'], ['other_headers', 'see_also', 'signature']):
                        structural.append(f'the stored entry has exactly other_headers and signature, optionally see_also (keyid gone), found {names}')
                    else:
                        d = {sl[1]: sl[2] for sl in ent_slots}
                        obs.append(oblige(eng, 'signature and headers are transcribed verbatim',
                                          z3.Not(z3.And(val_eq(it, None, d['signature'], sig), val_eq(it, None, d['other_headers'], oh))), mk))
                        chk = run_call(it, C.checkformat_gpg_signature, [ent])
                        if not is_ret(chk):
                            obs.append(oblige(eng, 'the stored entry passes the OpenPGP entry format check', True, mk))
                        # what was signed: the canonical bytes of the signed part, with the (normalised) fingerprint
                        cs = [c for c in calls if c[0] == 'create_signature']
                        if len(cs) != 1:
                            structural.append('create_signature called exactly once')
                        else:
                            obs.append(oblige(eng, 'GnuPG is asked to sign the canonical bytes of the signed part', z3.Not(bytes_eq(it, cs[0][1], canon_of(it, payload))), mk))
                        # assumption about GnuPG: its signature is valid over the RFC 4880 digest
                        v = valid(it, mk_hex_bytes(it, q), mk_hex_bytes(it, sig), digest_of(canon_of(it, payload), oh))
                        eng.add(v)
                        ver = run_call(it, A.verify_signable, [signable, [q], 1], {'gpg': True})
                        if not is_ret(ver):
                            obs.append(oblige(eng, 'a GnuPG signature transcribed by the library verifies in OpenPGP mode under q', True, mk))
                        else:
                            reach.append('verifies')
                # prior entries untouched unless under the same key
                for (p0, k0, v0), sl in zip(before_prior, prior.slots):
                    if sl[2] is not v0:
                        obs.append(oblige(eng, 'signatures already present under other keys are untouched', z3.And(zb(p0), z3.Not(k0.eq_sym(q))), mk))
            else:
                reach.append('fails:' + out[1])
                if not exc_in(out, ('ImportError', 'ValueError', 'TypeError')):
                    obs.append(oblige(eng, 'failures are ImportError / ValueError / TypeError', True, mk))
                if any(sl[2] is not v0 for (p0, k0, v0), sl in zip(before_prior, prior.slots)) or len(prior.slots) != len(before_prior):
                    obs.append(oblige(eng, 'a failed signing attempt leaves the envelope unchanged', True, mk))
            m = path_model(eng)
            if m is None:
                return None
            for name in structural:
                obs.append(dict(name=name, status='sat', cex=mk(m)))
            w = mk(m)
            w['predicted'] = predicted(out)
            return record(eng, out, obs, w, reach)
        return harness
    return f


def concrete(case):
    if case['scenario'] == 'primitive':
        import conda_content_trust.authentication as A
        CC.setup_valid_table(case['env'].get('valid', []))
        entry = from_wire(case['entry'])
        with CC.stdout_as(None):
            oc = CC.outcome_of(A.verify_gpg_signature, entry, case['key'], bytes.fromhex(case['data']))
        return {'outcome': oc}
    # transcription with a fake securesystemslib.gpg.functions
    import conda_content_trust.root_signing as RS
    import conda_content_trust.authentication as A
    import conda_content_trust.common as C
    CC.CRYPTO.install()
    CC.CRYPTO.reset()
    signed = from_wire(case['payload'])
    signable = {'signatures': from_wire(case['prior']), 'signed': signed}
    seen = {}

    class Fake:
        @staticmethod
        def create_signature(data, fp, *a, **k):
            seen['data'] = bytes(data)
            if case['fails']:
                raise ValueError('gpg failed (stub)')
            return {'keyid': case['keyid'], 'other_headers': case['oh'], 'signature': case['sig']}

        @staticmethod
        def export_pubkey(fp, *a, **k):
            return {'type': 'eddsa', 'method': 'pgp+eddsa-ed25519', 'keyid': case['keyid'], 'keyval': {'private': '', 'public': {'q': case['q']}}}
    old = (getattr(RS, 'gpg_funcs', None), RS.SSLIB_AVAILABLE)
    RS.gpg_funcs, RS.SSLIB_AVAILABLE = Fake, case['avail']
    res = {}
    try:
        import copy
        prior = copy.deepcopy(signable['signatures'])
        with CC.stdout_as(None):
            oc = CC.outcome_of(RS.sign_root_metadata_dict_via_gpg, signable, case['fpr'])
            res['outcome'] = oc
            probs = []
            if oc['kind'] == 'ret':
                ent = signable['signatures'].get(case['q'])
                if ent not in ({'other_headers': case['oh'], 'signature': case['sig']}, {'other_headers': case['oh'], 'signature': case['sig'], 'see_also': case['keyid']}):
                    probs.append(f'stored entry is {ent!r:.200}, expected exactly other_headers + signature under q')
                else:
                    if CC.outcome_of(C.checkformat_gpg_signature, ent)['kind'] != 'ret':
                        probs.append('stored entry fails checkformat_gpg_signature')
                    if seen.get('data') != CC.ref_canon(signed):
                        probs.append('GnuPG was not asked to sign the canonical bytes of the signed part')
                    digest = CC.gpg_digest(CC.ref_canon(signed), bytes.fromhex(case['oh']))
                    CC.CRYPTO.table[(bytes.fromhex(case['q']), bytes.fromhex(case['sig']), digest)] = True
                    v = CC.outcome_of(A.verify_signable, signable, [case['q']], 1, gpg=True)
                    if v['kind'] != 'ret':
                        probs.append(f'the transcribed GnuPG signature does not verify in OpenPGP mode: {v["cls"]}')
                for k, v in prior.items():
                    if k != case['q'] and signable['signatures'].get(k) != v:
                        probs.append('a signature already present under another key was changed')
            else:
                if not any(c in oc['mro'] for c in ('ImportError', 'ValueError', 'TypeError')):
                    probs.append(f'failure raised {oc["cls"]}')
                if signable['signatures'] != prior:
                    probs.append('a failed signing attempt changed the envelope')
            res['problems'] = probs
    finally:
        RS.SSLIB_AVAILABLE = old[1]
        if old[0] is None:
            try:
                del RS.gpg_funcs
            except Exception:
                pass
        else:
            RS.gpg_funcs = old[0]
    return res


def agrees(case, obs):
    return 'outcome' in obs and CC.same_outcome(case.get('predicted'), obs['outcome'])


def judge(case, obs):
    if 'outcome' not in obs:
        return None
    if case['scenario'] == 'transcribe':
        return '; '.join(obs.get('problems', [])[:3]) or None
    import re
    CC.setup_valid_table(case['env'].get('valid', []))
    entry, key, data = from_wire(case['entry']), case['key'], bytes.fromhex(case['data'])
    hexs = lambda x, n=None: isinstance(x, str) and '\n' not in x and re.fullmatch(r'(?:[0-9a-f]{2})+' if n is None else r'[0-9a-f]{%d}' % n, x, re.ASCII) is not None
    ks = set(entry) if isinstance(entry, dict) else set()
    wf = ks in ({'signature', 'other_headers'}, {'signature', 'other_headers', 'see_also'}) and hexs(entry['signature'], 128) and hexs(entry['other_headers']) \
        and ('see_also' not in ks or hexs(entry['see_also'], 40)) and hexs(key, 64)
    good = wf and CC.CRYPTO.table.get((bytes.fromhex(key), bytes.fromhex(entry['signature']), CC.gpg_digest(data, bytes.fromhex(entry['other_headers']))), False)
    oc = obs['outcome']
    if oc['kind'] == 'ret' and not good:
        return 'verify_gpg_signature accepted although the signature does not verify over SHA-256(data || headers || 04 ff || be32(len headers)) under the key (or entry / key malformed)'
    if oc['kind'] == 'exc' and good:
        return f'verify_gpg_signature raised {oc["cls"]} on a well-formed entry whose signature verifies over the RFC 4880 digest'
    if oc['kind'] == 'exc' and not CC.documented(oc, ('InvalidSignature',)):
        return f'verify_gpg_signature raised {oc["cls"]}'
    return None


def units(tier):
    q = tier == 'quick'
    return [Unit('verify_gpg_signature', primitive_factory('p', 4 if q else 8, 8 if q else 12), expect=('valid', 'rejected:InvalidSignature', 'rejected:ValueError'), max_witnesses=200),
            Unit('gpg-transcription', transcribe_factory('tr'), expect=('signed', 'verifies', 'fails:ImportError', 'fails:ValueError'), max_witnesses=200)]


BOUNDS = dict(primitive='payload bytes: symbolic, <= 4 (quick) / 8 (thorough) bytes; other_headers: free string <= 8 / 12 characters (<= 4 / 6 header bytes); signature <= 130, key <= 66, see_also <= 42 characters over all of Unicode; optional see_also and extra field',
              transcription='fingerprint: free string <= 42 chars; securesystemslib results: any keyid (40 hex) / other_headers (<= 6 hex chars) / signature (128 hex) / q (64 hex); library available or not; gpg call failing or not; one pre-existing signature entry under a free key')
OUTSIDE = 'longer payloads / headers (the framing code has no length-dependent branch); signatures produced by the GnuPG binary (securesystemslib is not installed here: GnuPG is modelled by its schema plus the assumption that its signature is valid over the RFC 4880 digest); RFC 4880 itself is taken from the property statement'
ASSUMPTIONS = ['SHA-256 is modelled as injective on the hashed byte string (two digests are equal iff their flattened inputs are equal)', 'A2 (Valid uninterpreted), A3']
