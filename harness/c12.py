"""C12 -- verification is pure: no argument mutation, no state carried across calls.

 (1) write barrier: on every path of the three verifiers and of the delegating-metadata checker (templates of
     C01 / C05 / C03 / C14) no store reaches an object reachable from an argument;
 (2) call-order independence: verify_signable is called on envelope E1, then on a RELATED envelope E2 (its key and
     signature strings are free and may coincide with E1's; the payload differs) and then on E1 again, all in one
     interpreter state (module-level state written by an earlier call is visible to the later ones); every verdict
     must satisfy the single-call characterisation (soundness and completeness oracle of C01/C02 on its own
     arguments), in both modes;
 (3) wrap_as_signable copies: for payloads of every top-level JSON type with nested mutable containers, no mutable
     object is reachable from both the argument and the returned envelope, the copy equals the original, the
     argument is unchanged.
Not reachable by this family (stated, not claimed): thread interleavings, hash seed, locale, cwd, import history."""
import sys
import z3
from pysym.values import *
from pysym.interp import Interp
from pysym.tmpl import T, conc, freeze
from pysym.models import val_eq
from pysym.stubs import canon_of, json_eq
from pysym.hutil import *
from pysym.framework import Unit
from pysym import concrete as CC
from pysym.wire import to_wire, from_wire
from harness import vsign, vdeleg, c14

ID = 'C12'
PROPS = ('C12',)


# ---------------------------------------------------------------------------
# (2) three calls in one interpreter state

def seq_factory(ns):
    def f(eng):
        import conda_content_trust.authentication as A
        from harness import lemmas
        ovr = lemmas.overrides(eng)

        def harness(eng):
            tps = [vsign.build(eng, f'{ns}.e{i}', N=1, M=1, Loh=2, junk=False, thr_kinds=('int',)) for i in (1, 2)]
            for tp in tps:
                freeze(tp['signable'])
            it = Interp(eng, ovr)
            order = [0, 1, 0]
            outs, ors = [], []
            for k in order:
                tp = tps[k]
                outs.append(run_call(it, A.verify_signable, [tp['signable'], tp['authv'], tp['thr']], {'gpg': tp['gpg']}))
                ors.append(vsign.oracle(it, tp))
            # the two payloads may be equal or different JSON values; the two modes are independent
            m = path_model(eng)
            if m is None:
                return None

            def mk(mm):
                cases = [vsign.mk_case(eng, tp, mm) for tp in tps]
                vt = vsign.valid_table(eng, mm)
                return dict(scenario='sequence', calls=[dict(signable=cases[k]['signable'], auth=cases[k]['auth'], threshold=cases[k]['threshold'], gpg=cases[k]['gpg']) for k in order],
                            env=dict(valid=vt, stdout_enc=None))
            obs = []
            for i, (out, o) in enumerate(zip(outs, ors)):
                args_ok = z3.And(o['auth_ok'], o['thr_ok'])
                if is_ret(out):
                    obs.append(oblige(eng, f'call {i + 1} of the sequence accepted => its own arguments justify it (verdict independent of earlier calls)',
                                      z3.Not(z3.And(o['thr_ok'], o['lib'] >= o['thr_val'])), mk))
                else:
                    obs.append(oblige(eng, f'call {i + 1} of the sequence rejected => its own arguments justify it (verdict independent of earlier calls)',
                                      z3.And(args_ok, o['strict'] >= o['thr_val']), mk))
            if is_ret(outs[0]) != is_ret(outs[2]):
                obs.append(oblige(eng, 'repeating a call gives the same verdict', True, mk))
            w = mk(m)
            w['predicted'] = [predicted(o) for o in outs]
            reach = ['/'.join('A' if is_ret(o) else 'R' for o in outs)]
            return record(eng, outs[2], obs, w, reach, okey_='/'.join(okey(o) for o in outs))
        return harness
    return f


def edit_factory(ns):
    """verify, edit the payload object IN PLACE, verify the same envelope object again, undo the edit, verify again"""
    def f(eng):
        import conda_content_trust.authentication as A
        from harness import lemmas
        ovr = lemmas.overrides(eng)

        def harness(eng):
            t = T(eng, ns=ns)
            a, b = t.int('va'), t.int('vb')
            payload = {'v': a, 'w': [1, 2]}
            tp = vsign.build(eng, ns, N=1, M=1, Loh=2, junk=False, thr_kinds=('int',), payload=payload)
            it = Interp(eng, ovr)
            outs, ors, snaps = [], [], []
            for val in (a, b, a):
                payload['v'] = val
                outs.append(run_call(it, A.verify_signable, [tp['signable'], tp['authv'], tp['thr']], {'gpg': tp['gpg']}))
                ors.append(vsign.oracle(it, tp))
                snaps.append(val)
            eng.add(a.e != b.e)
            m = path_model(eng)
            if m is None:
                return None

            def mk(mm):
                calls = []
                for val in snaps:
                    payload['v'] = val
                    c = vsign.mk_case(eng, tp, mm)
                    calls.append(dict(signable=c['signable'], auth=c['auth'], threshold=c['threshold'], gpg=c['gpg']))
                return dict(scenario='sequence', in_place=True, calls=calls, env=dict(valid=vsign.valid_table(eng, mm), stdout_enc=None))
            obs = []
            for i, (out, o) in enumerate(zip(outs, ors)):
                if is_ret(out):
                    obs.append(oblige(eng, f'verification {i + 1} (payload edited in place between calls) accepted => signatures are valid over the payload as it is NOW',
                                      z3.Not(z3.And(o['thr_ok'], o['lib'] >= o['thr_val'])), mk))
                else:
                    obs.append(oblige(eng, f'verification {i + 1} (payload edited in place between calls) rejected => not enough signatures over the payload as it is now',
                                      z3.And(o['auth_ok'], o['thr_ok'], o['strict'] >= o['thr_val']), mk))
            w = mk(m)
            w['predicted'] = [predicted(o) for o in outs]
            return record(eng, outs[2], obs, w, ['/'.join('A' if is_ret(o) else 'R' for o in outs)], okey_='/'.join(okey(o) for o in outs))
        return harness
    return f


# ---------------------------------------------------------------------------
# (3) wrap_as_signable copies

def payloads(t):
    s, i = t.str('leaf.s', 2), t.int('leaf.i')
    return [('dict', lambda: {'k': [1, {'x': i}], 'm': {'n': s}}), ('list', lambda: [{'a': i}, [s]]), ('tuple', lambda: ({'a': i}, [s])),
            ('str', lambda: s), ('int', lambda: i), ('float', lambda: t.float('leaf.f')), ('bool', lambda: t.bool('leaf.b')), ('none', lambda: None),
            ('set', lambda: {1, 2}), ('bytes', lambda: b'ab')]


def mutable_ids(v, acc=None):
    acc = {} if acc is None else acc
    if isinstance(v, SAny):
        for l, x in v.alts:
            mutable_ids(x, acc)
    elif isinstance(v, (dict, list, set, SDict, SList, SSet, bytearray)):
        if id(v) in acc:
            return acc
        acc[id(v)] = v
        if isinstance(v, dict):
            for x in v.values():
                mutable_ids(x, acc)
        elif isinstance(v, list):
            for x in v:
                mutable_ids(x, acc)
        elif isinstance(v, SDict):
            for p, k, x in v.slots:
                mutable_ids(x, acc)
        elif isinstance(v, SList):
            for x in v.items:
                mutable_ids(x, acc)
    elif isinstance(v, tuple):
        for x in v:
            mutable_ids(x, acc)
    return acc


def wrap_factory(kind_index):
    def f(eng):
        import conda_content_trust.signing as S

        def harness(eng):
            t = T(eng, ns=f'wrap{kind_index}')
            kind, mkp = payloads(t)[kind_index]
            p = mkp()
            snapshot = to_wire_struct(p)
            it = Interp(eng)
            out = run_call(it, S.wrap_as_signable, [p])
            m = path_model(eng)
            if m is None:
                return None
            mk = lambda mm: dict(scenario='wrap', kind=kind, payload=to_wire(conc(mm, p)))
            obs = []
            if is_ret(out):
                env = out[1]
                ok_shape = isinstance(env, dict) and set(env.keys()) == {'signatures', 'signed'} and (env['signatures'] == {} or (isinstance(env['signatures'], SDict) and not env['signatures'].slots))
                if not ok_shape:
                    obs.append(oblige(eng, 'the envelope has exactly the fields signatures (empty) and signed', True, mk))
                else:
                    shared = set(mutable_ids(p)) & set(mutable_ids(env['signed']))
                    obs.append(oblige(eng, 'no mutable object is shared between the payload and the envelope', bool(shared), mk))
                    obs.append(oblige(eng, 'the wrapped copy equals the payload', z3.Not(json_eq(it, p, env['signed'])), mk))
                    obs.append(oblige(eng, 'the payload is unchanged', to_wire_struct(p) != snapshot, mk))
            else:
                ser = kind not in ('set', 'bytes')
                if ser or not exc_in(out, ('TypeError',)):
                    obs.append(oblige(eng, 'JSON-serialisable top-level types are wrapped, others rejected with TypeError', True, mk))
                else:
                    obs.append(dict(name='non-serialisable top-level type rejected with TypeError', status='unsat'))
            w = mk(m)
            w['predicted'] = predicted(out)
            return record(eng, out, obs, w, ['wrapped'] if is_ret(out) else ['rejected'])
        return harness
    return f


def to_wire_struct(v):
    """structure fingerprint of an engine value (identity-free), to detect in-place changes of the argument"""
    if isinstance(v, dict):
        return ('d', tuple((k, to_wire_struct(x)) for k, x in v.items()))
    if isinstance(v, (list, tuple)):
        return (type(v).__name__, tuple(to_wire_struct(x) for x in v))
    if isinstance(v, Sym):
        return ('s', id(v))
    return ('c', repr(v))


def pure_note(fn):
    """wrap a verifier factory so that every path carries an explicit write-barrier obligation"""
    def f(eng):
        h = fn(eng)

        def harness(eng):
            rec = h(eng)
            if rec is not None and not any('modify' in ob['name'] for ob in rec['obligations']):
                rec['obligations'].append(dict(name='write barrier: no store reached an object reachable from an argument on this path', status='unsat'))
            return rec
        return harness
    return f


VD = dict(R=1, M=1, N=1, junk=True, thr_kinds=('int', 'float'))
VR = dict(R=1, M=1, N=2, ver_kinds=('int',), thr_kinds=('int', 'float'))     # two signature entries: a rotation (old key, new key) can be accepted


def pre(res, tier):
    vdeleg.prove_checker_lemmas(res, sys.modules[__name__], vdeleg.lemma_units('vd', 'c12d', **VD) + vdeleg.lemma_units('vr', 'c12r', **VR))


def units(tier):
    q = tier == 'quick'
    us = [Unit('barrier:verify_signable', pure_note(vsign.factory('c12s', PROPS + ('C01', 'C02'), N=1 if q else 2, M=1, Loh=2, junk=True)), expect=('accepts',), max_witnesses=150),
          Unit('barrier:verify_delegation', pure_note(vdeleg.factory_vd('c12d', PROPS, **VD)), expect=('accepts',), max_witnesses=150),
          Unit('barrier:verify_root', pure_note(vdeleg.factory_vr('c12r', PROPS, **VR)), expect=('accepts',), max_witnesses=150),
          Unit('sequence:E1,E2,E1', seq_factory('c12q'), expect=('A/A/A', 'A/R/A', 'R/A/R', 'R/R/R'), max_witnesses=300),
          Unit('sequence:in-place edit', edit_factory('c12e'), expect=('A/R/A', 'R/A/R', 'R/R/R', 'A/A/A'), max_witnesses=200)]
    us += [Unit(f'wrap:{k}', wrap_factory(i), expect=('wrapped',) if k not in ('set', 'bytes') else ('rejected',), max_witnesses=5)
           for i, k in enumerate(['dict', 'list', 'tuple', 'str', 'int', 'float', 'bool', 'none', 'set', 'bytes'])]
    return us


def concrete(case):
    sc = case.get('scenario')
    if sc == 'lemma':
        return {}
    if sc == 'verify_signable':
        return vsign.run_verify_signable(case)
    if sc == 'verify_delegation':
        return vdeleg.run_vd(case)
    if sc == 'verify_root':
        return vdeleg.run_vr(case)
    if sc == 'sequence':
        import conda_content_trust.authentication as A
        CC.setup_valid_table(case['env'].get('valid', []))
        outs = []
        with CC.stdout_as(None):
            env0 = None
            for c in case['calls']:
                a = [from_wire(c['signable']), from_wire(c['auth']), from_wire(c['threshold'])]
                if case.get('in_place'):
                    if env0 is None:
                        env0 = a[0]
                    else:              # same envelope and payload objects, content edited in place
                        env0['signed'].clear()
                        env0['signed'].update(a[0]['signed'])
                    a[0] = env0
                outs.append(CC.outcome_of(A.verify_signable, *a, gpg=from_wire(c['gpg'])))
        return {'outcomes': outs}
    if sc == 'wrap':
        import copy
        import conda_content_trust.signing as S
        p = from_wire(case['payload'])
        before = copy.deepcopy(p)
        oc = CC.outcome_of(S.wrap_as_signable, p)
        res = {'outcome': oc, 'shared': False, 'equal': None, 'unchanged': to_wire(p) == to_wire(before)}
        if oc['kind'] == 'ret':
            env = S.wrap_as_signable(p)

            def muts(v, acc):
                if isinstance(v, (dict, list, set, bytearray)):
                    acc.add(id(v))
                    for x in (v.values() if isinstance(v, dict) else v):
                        muts(x, acc)
                elif isinstance(v, tuple):
                    for x in v:
                        muts(x, acc)
                return acc
            res['shared'] = bool(muts(p, set()) & muts(env['signed'], set()))
            res['equal'] = to_wire(env['signed']) == to_wire(p)
            res['shape'] = isinstance(env, dict) and set(env) == {'signatures', 'signed'} and env['signatures'] == {}
        return res
    raise ValueError(sc)


def agrees(case, obs):
    if case.get('scenario') == 'sequence':
        return 'outcomes' in obs and all(CC.same_outcome(p, o) for p, o in zip(case['predicted'], obs['outcomes']))
    return 'outcome' in obs and CC.same_outcome(case.get('predicted'), obs['outcome'])


def judge(case, obs):
    sc = case.get('scenario')
    if sc == 'lemma':
        return None
    if sc == 'verify_signable':
        return vsign.judge_verify_signable(case, obs, PROPS + ('C01', 'C02'))
    if sc == 'verify_delegation':
        return vdeleg.judge_vd(case, obs, PROPS)
    if sc == 'verify_root':
        return vdeleg.judge_vr(case, obs, PROPS)
    if sc == 'sequence':
        if 'outcomes' not in obs:
            return None
        for i, (c, oc) in enumerate(zip(case['calls'], obs['outcomes'])):
            single = dict(signable=c['signable'], auth=c['auth'], threshold=c['threshold'], gpg=c['gpg'], env=case['env'])
            why = vsign.judge_verify_signable(single, {'outcome': oc, 'unchanged': True}, ('C01', 'C02'))
            if why:
                return f'call {i + 1} of a sequence over related envelopes: {why} -- the verdict differs from the one these arguments get on their own, i.e. state is carried across calls'
        o = obs['outcomes']
        if o[0]['kind'] != o[2]['kind']:
            return 'repeating the first call after a call on a related envelope changed its verdict'
        return None
    if sc == 'wrap':
        oc = obs['outcome']
        ser = case['kind'] not in ('set', 'bytes')
        if oc['kind'] == 'ret':
            if not ser:
                return f'wrap_as_signable accepted a payload of non-serialisable top-level type {case["kind"]}'
            if not obs.get('shape'):
                return 'wrap_as_signable did not return a two-field envelope with an empty signature map'
            if obs.get('shared'):
                return f'wrap_as_signable shares a mutable object between the {case["kind"]} payload and the envelope: later changes to one affect the other'
            if obs.get('equal') is False:
                return 'the wrapped copy differs from the payload'
        else:
            if ser or 'TypeError' not in oc['mro']:
                return f'wrap_as_signable raised {oc["cls"]} on a {case["kind"]} payload'
        if not obs.get('unchanged', True):
            return 'wrap_as_signable modified its argument'
    return None


BOUNDS = dict(barrier='verify_signable (1 entry quick / 2 thorough + junk), verify_delegation, verify_root on the typed templates of C01 / C05 / C03 with one role and one key',
              sequence='3 calls E1, E2, E1 of verify_signable in one interpreter state; each envelope has one entry of free strings, one free authorised key, int threshold; modes chosen independently per envelope; payloads equal or distinct',
              wrap='payloads: dict / list / tuple with nested dict and list, str, int, binary64, bool, None, and the non-serialisable set / bytes')
OUTSIDE = 'thread interleavings (Python threads are not encoded; the write barrier supports but does not prove schedule independence), hash seed, locale, working directory, modules imported earlier in the process; sequences longer than 3 calls; id()-keyed state (address-dependent behaviour is reported as inconclusive)'
ASSUMPTIONS = ['A2, A3; deepcopy / copy are modelled as structural clones with fresh identities / one-level clones']
