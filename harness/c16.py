"""C16 -- metadata constructors emit only well-formed, faithful metadata.

build_delegating_metadata / build_root_metadata / iso8601_time_plus_delta are interpreted with every argument symbolic
(valid and corrupted: any JSON kind and type-confusion values in each position; typed delegations with free names,
keys, thresholds; versions int / bool / binary64; time strings abstracted by IsoOK) and a clock stub (fresh, non-decreasing
readings with arbitrary microseconds).  Obligations: raise TypeError/ValueError or return metadata with the arguments
verbatim, the library's spec version, a checker-accepted envelope for supported types, default expiry exactly one
ROOT_MD_EXPIRY_DISTANCE after the (second) clock reading with zero microseconds, root metadata delegating root and key_mgr;
a second construction with defaults is independent of what was done to the first result; a root built for version
v + 1 and signed per the rules verifies as successor of the root built for v (interpreted verify_root)."""
import datetime
import z3
from pysym.values import *
from pysym.interp import Interp, Frame
from pysym.tmpl import T, conc, freeze, p_natural
from pysym.models import val_eq, spec_over, canon, canon_even, mk_hex_bytes, dict_slots
from pysym.stubs import iso_text_parts, json_eq, canon_of, valid, US
from pysym.hutil import *
from pysym.framework import Unit
from pysym import concrete as CC
from pysym.wire import to_wire, from_wire
from harness import dmt, c10

ID = 'C16'
ISO = dmt.ISO


def _empty_dict(v):
    """an empty dict (the interpreter builds empty displays as symbolic dicts without slots)"""
    return (isinstance(v, dict) and len(v) == 0) or (isinstance(v, SDict) and not [sl for sl in v.slots if not (isinstance(sl[0], bool) and not sl[0])])


def time_arg(t, name):
    return t.any(name, [('default', None), ('str', t.str(name + '.s', 3)), ('int', t.int(name + '.i')), ('list', [])])


def delegations_arg(t, name):
    keys = [t.str(f'{name}.k{j}', 66) for j in range(1)]
    role = t.sdict(name + '.role', [('pubkeys', t.slist(name + '.pk', keys)), ('threshold', t.any(name + '.thr', [('int', t.int(name + '.thr.i')), ('float', t.float(name + '.thr.f')), ('str', t.str(name + '.thr.s', 1))]))], optional=False)
    d = t.sdict(name + '.d', [(t.str(name + '.rn', 8), role)])
    return t.any(name, [('default', None), ('dict', d), ('list', []), ('str', t.str(name + '.s', 2))]), d, role, keys


def fields(md):
    return {k: (p, v) for p, k, v in dict_slots(md)} if isinstance(md, (dict, SDict)) else None


def bdm_factory(ns):
    def f(eng):
        import conda_content_trust.metadata_construction as MC
        import conda_content_trust.common as C
        import conda_content_trust.signing as S
        from harness import lemmas
        ovr = lemmas.overrides(eng)

        def harness(eng):
            t = T(eng, ns=ns)
            typ = t.any('type', [('s', t.str('type.s', 8))] + [a for a in t.json_leafs('typev', 1) if a[0] != 'str'])
            dels, dd, role, keys = delegations_arg(t, 'dels')
            ver = t.any('ver', [('int', t.int('ver.i')), ('bool', t.bool('ver.b')), ('float', t.float('ver.f')), ('str', t.str('ver.s', 1)), ('none', None)])
            ts, exp = time_arg(t, 'ts'), time_arg(t, 'exp')
            it = Interp(eng, ovr)
            root = Frame(it, bdm_factory, {}, None)
            out = run_call(it, MC.build_delegating_metadata, [typ], dict(delegations=dels, version=ver, timestamp=ts, expiration=exp))
            obs, structural, reach = [], [], []
            mk = lambda mm: dict(scenario='bdm', args=dict(metadata_type=to_wire(conc(mm, typ)), delegations=to_wire(conc(mm, dels)), version=to_wire(conc(mm, ver)),
                                                           timestamp=to_wire(conc(mm, ts)), expiration=to_wire(conc(mm, exp))),
                                 env=dict(iso=iso_table(eng, mm), clock=[mm.eval(c, model_completion=True).as_long() for c in eng.path_local.get('clock', [])]))
            if is_ret(out):
                reach.append('built')
                md = out[1]
                fs = fields(md)
                want = {'type', 'version', 'metadata_spec_version', 'timestamp', 'expiration', 'delegations'}
                if fs is None or set(fs) != want:
                    structural.append(f'the built metadata has exactly the fields {sorted(want)}')
                else:
                    obs.append(oblige(eng, 'type is carried verbatim', z3.Not(val_eq(it, root, fs['type'][1], typ)), mk))
                    obs.append(oblige(eng, 'version is carried verbatim', z3.Not(json_eq(it, fs['version'][1], ver)), mk))
                    if fs['metadata_spec_version'][1] != C.SECURITY_METADATA_SPEC_VERSION:
                        structural.append("declares the library's specification version")
                    tsv, expv = root.split(ts), root.split(exp)
                    dv = root.split(dels)
                    if dv is None:
                        if not _empty_dict(fs['delegations'][1]):
                            structural.append('no delegations given => none in the result')
                    else:
                        if fs['delegations'][1] is not dv:
                            obs.append(oblige(eng, 'delegations are carried verbatim', z3.Not(json_eq(it, fs['delegations'][1], dv)), mk))
                    clock = eng.path_local.get('clock', [])
                    if tsv is not None:
                        obs.append(oblige(eng, 'timestamp is carried verbatim', z3.Not(val_eq(it, root, fs['timestamp'][1], tsv)), mk))
                    else:
                        d = iso_text_parts(fs['timestamp'][1])
                        if d is None or not clock:
                            structural.append('default timestamp is the current UTC time in canonical form')
                        else:
                            obs.append(oblige(eng, 'default timestamp is the clock reading with microseconds stripped', z3.Not(d.T == clock[0] - clock[0] % US), mk))
                    if expv is not None:
                        obs.append(oblige(eng, 'expiration is carried verbatim', z3.Not(val_eq(it, root, fs['expiration'][1], expv)), mk))
                    else:
                        d = iso_text_parts(fs['expiration'][1])
                        if d is None or not clock:
                            structural.append('default expiration is a canonical UTC time')
                        else:
                            if tsv is None:
                                d0 = iso_text_parts(fs['timestamp'][1])
                                if d0 is not None:
                                    skew = clock[-1] - clock[0]
                                    obs.append(oblige(eng, 'by default the metadata expires strictly after its timestamp, about one year later (365 to 367 days, plus the time between the two clock readings)',
                                                      z3.Not(z3.And(d.T > d0.T, d.T - d0.T >= 365 * 86400 * US, d.T - d0.T <= 367 * 86400 * US + skew)), mk))
                            obs.append(oblige(eng, 'a defaulted expiration is a whole-second UTC time', d.T % US != 0, mk))
                    # wrapped, it passes the checker for supported types
                    w = run_call(it, S.wrap_as_signable, [md])
                    if not is_ret(w):
                        structural.append('the built metadata can be wrapped')
                    else:
                        chk = run_call(it, C.checkformat_delegating_metadata, [w[1]])
                        supported = spec_over(typ, lambda x: zor([x.eq_conc(s) for s in C.SUPPORTED_DELEGATING_METADATA_TYPES]) if isinstance(x, SStr) else False)
                        if not is_ret(chk):
                            obs.append(oblige(eng, 'built metadata of a supported type passes the delegating-metadata checker once wrapped', supported, mk))
                        else:
                            reach.append('checker accepts')
            else:
                reach.append('raises:' + out[1])
                if not exc_in(out, ('TypeError', 'ValueError')):
                    obs.append(oblige(eng, 'invalid arguments are reported as TypeError / ValueError', True, mk))
                else:
                    # valid arguments must not be refused
                    iso = lambda x: eng.uf(ISO, [x], lambda a, b: a.eq_sym(b))
                    tok = lambda v: spec_over(v, lambda x: True if x is None else (iso(x) if isinstance(x, SStr) else False))
                    dels_ok = z3.Or(dels.tag == 0, z3.And(dels.tag == 1, z3.Implies(zb(dd.slots[0][0]),
                                    z3.And(spec_over(role.slots[1][2], p_natural), zand([z3.Implies(role.slots[0][2].n > j, canon(k, 64)) for j, k in enumerate(keys)])))))
                    valid_args = z3.And(typ.tag == 0, dels_ok, spec_over(ver, p_natural), tok(ts), tok(exp))
                    obs.append(oblige(eng, 'valid arguments are accepted', valid_args, mk))
            m = path_model(eng)
            if m is None:
                return None
            for name in structural:
                obs.append(dict(name=name, status='sat', cex=mk(m)))
            w = mk(m)
            w['predicted'] = predicted(out)
            return record(eng, out, obs, w, reach)
        return harness
    return f


def defaults_factory(ns):
    """two constructions with defaulted delegations; the first result is modified in between"""
    def f(eng):
        import conda_content_trust.metadata_construction as MC

        def harness(eng):
            t = T(eng, ns=ns)
            it = Interp(eng)
            a = run_call(it, MC.build_delegating_metadata, ['key_mgr'])
            if not is_ret(a):
                raise Unsupported('build_delegating_metadata("key_mgr") raised')
            md1 = a[1]
            d1 = md1['delegations'] if isinstance(md1, dict) else None
            if isinstance(d1, dict):
                d1['pkg_mgr'] = {'pubkeys': ['ab' * 32], 'threshold': 1}
            elif isinstance(d1, SDict):
                d1.slots.append([True, 'pkg_mgr', {'pubkeys': ['ab' * 32], 'threshold': 1}])
            b = run_call(it, MC.build_delegating_metadata, ['key_mgr'])
            m = path_model(eng)
            if m is None:
                return None
            mk = lambda mm: dict(scenario='defaults')
            obs = []
            ok = is_ret(b) and isinstance(b[1], dict) and _empty_dict(b[1].get('delegations'))
            obs.append(dict(name='a construction without delegations carries none, whatever was done to an earlier result', status='unsat' if ok else 'sat', cex=mk(m)))
            w = mk(m)
            w['predicted'] = {'kind': 'ret'}
            return record(eng, b, obs, w, ['built twice'])
        return harness
    return f


def root_factory(ns):
    def f(eng):
        import conda_content_trust.metadata_construction as MC
        import conda_content_trust.common as C
        import conda_content_trust.signing as S
        import conda_content_trust.authentication as A
        from harness import lemmas
        ovr = lemmas.overrides(eng)

        def harness(eng):
            t = T(eng, ns=ns)
            v = t.int('v')
            rk, kk = t.str('rk', 66), t.str('kk', 66)
            rthr = t.any('rthr', [('int', t.int('rthr.i')), ('float', t.float('rthr.f'))])
            sig, oh = t.str('sig', 130), t.str('oh', 4)
            # shape of the two key lists: one key, no key yet (a legal draft: the role is still delegated), a tuple (not a list: refused)
            rshape = t.any('rshape', [('one', 'one'), ('empty', 'empty'), ('tuple', 'tuple')])
            kshape = t.any('kshape', [('one', 'one'), ('empty', 'empty')])
            it = Interp(eng, ovr)
            root = Frame(it, root_factory, {}, None)
            rs, ks = root.split(rshape), root.split(kshape)
            mkl = lambda shape, k: {'one': [k], 'empty': [], 'tuple': (k,)}[shape]
            o1 = run_call(it, MC.build_root_metadata, [v, mkl(rs, rk), rthr, mkl(ks, kk), 1])
            o2 = run_call(it, MC.build_root_metadata, [SInt(v.e + 1), mkl(rs, rk), rthr, mkl(ks, kk), 1])
            obs, structural, reach = [], [], []
            mk = lambda mm: dict(scenario='root', rshape=rs, kshape=ks, v=conc(mm, v), rk=conc(mm, rk), kk=conc(mm, kk), rthr=to_wire(conc(mm, rthr)), sig=conc(mm, sig), oh=conc(mm, oh))
            if is_ret(o1) and is_ret(o2):
                reach.append('built')
                if rs == 'tuple':
                    structural.append('a key list that is not a list is refused')
                md1, md2 = o1[1], o2[1]
                for md in (md1, md2):
                    fs = fields(md)
                    d = fs['delegations'][1] if fs and 'delegations' in fs else None
                    names = sorted(k for p, k, x in dict_slots(d)) if isinstance(d, (dict, SDict)) else None
                    if names != ['key_mgr', 'root'] or fs['type'][1] != 'root':
                        structural.append('root metadata has type root and delegates exactly root and key_mgr')
                if not structural:
                    e1 = run_call(it, S.wrap_as_signable, [md1])[1]
                    e2 = run_call(it, S.wrap_as_signable, [md2])[1]
                    c1 = run_call(it, C.checkformat_delegating_metadata, [e1])
                    if not is_ret(c1):
                        obs.append(oblige(eng, 'built root metadata passes the checker', True, mk))
                    elif rs == 'one':
                        # threshold signing (OpenPGP mode): one entry under the root key whose signature is valid over the digest
                        e2['signatures'] = {rk: {'other_headers': oh, 'signature': sig}}
                        eng.add(canon(sig, 128), canon_even(oh))
                        msg = c10.digest_of(canon_of(it, e2['signed']), oh)
                        eng.add(valid(it, mk_hex_bytes(it, rk), mk_hex_bytes(it, sig), msg))
                        vr = run_call(it, A.verify_root, [e1, e2])
                        thr_is_1 = spec_over(rthr, lambda x: (x.e == 1) if isinstance(x, SInt) else False)
                        if not is_ret(vr):
                            obs.append(oblige(eng, 'a root built for version v + 1 and signed by the threshold of root keys verifies as successor of the root built for v', thr_is_1, mk))
                        else:
                            reach.append('successor verifies')
            else:
                reach.append('raises')
                for o in (o1, o2):
                    if not is_ret(o) and not exc_in(o, ('TypeError', 'ValueError')):
                        obs.append(oblige(eng, 'invalid arguments are reported as TypeError / ValueError', True, mk))
                ok = z3.And(v.e >= 1, canon(rk, 64) if rs == 'one' else z3.BoolVal(rs == 'empty'), canon(kk, 64) if ks == 'one' else z3.BoolVal(True), spec_over(rthr, p_natural))
                obs.append(oblige(eng, 'valid arguments are accepted', ok, mk))
            m = path_model(eng)
            if m is None:
                return None
            for name in structural:
                obs.append(dict(name=name, status='sat', cex=mk(m)))
            w = mk(m)
            w['predicted'] = {'kind': 'ret'} if (is_ret(o1) and is_ret(o2)) else predicted(o1 if not is_ret(o1) else o2)
            return record(eng, o1, obs, w, reach)
        return harness
    return f


# ---------------------------------------------------------------------------
# concrete side

def _iso_ok(table):
    from harness.c14 import _iso_fn
    return _iso_fn(table or {})


def concrete(case):
    import conda_content_trust.metadata_construction as MC
    import conda_content_trust.common as C
    import conda_content_trust.signing as S
    import conda_content_trust.authentication as A
    probs = []
    sc = case['scenario']
    if sc == 'bdm':
        a = {k: from_wire(v) for k, v in case['args'].items()}
        env = case.get('env', {})
        iso = _iso_ok(env.get('iso'))
        clock = list(env.get('clock') or [])
        with CC.time_stub(env.get('iso'), clock), CC.stdout_as(None):
            import copy
            given = copy.deepcopy(a)
            oc = CC.outcome_of(MC.build_delegating_metadata, a['metadata_type'], delegations=a['delegations'], version=a['version'], timestamp=a['timestamp'], expiration=a['expiration'])
            if oc['kind'] == 'ret':
                md = MC.build_delegating_metadata(given['metadata_type'], delegations=given['delegations'], version=given['version'], timestamp=given['timestamp'], expiration=given['expiration']) if False else from_wire(oc['value'])
                if not isinstance(md, dict) or set(md) != {'type', 'version', 'metadata_spec_version', 'timestamp', 'expiration', 'delegations'}:
                    probs.append('built metadata does not have exactly the six fields')
                else:
                    if to_wire(md['type']) != to_wire(given['metadata_type']) or to_wire(md['version']) != to_wire(given['version']):
                        probs.append('type / version not carried verbatim')
                    if md['metadata_spec_version'] != C.SECURITY_METADATA_SPEC_VERSION:
                        probs.append('wrong specification version')
                    if given['delegations'] is None:
                        if md['delegations'] != {}:
                            probs.append('delegations invented')
                    elif to_wire(md['delegations']) != to_wire(given['delegations']):
                        probs.append('delegations not carried verbatim')
                    for f in ('timestamp', 'expiration'):
                        if given[f] is not None and md[f] != given[f]:
                            probs.append(f + ' not carried verbatim')
                    fmt = '%Y-%m-%dT%H:%M:%SZ'
                    if given['expiration'] is None:
                        try:
                            e = datetime.datetime.strptime(md['expiration'], fmt)
                            base = datetime.datetime(1970, 1, 1) + datetime.timedelta(microseconds=(clock[-1] if clock else 0))
                            if given['timestamp'] is None:
                                t0 = datetime.datetime.strptime(md['timestamp'], fmt)
                                skew = datetime.timedelta(microseconds=(clock[-1] - clock[0])) if len(clock) > 1 else datetime.timedelta(0)
                                if not (e > t0 and datetime.timedelta(days=365) <= e - t0 <= datetime.timedelta(days=367) + skew):
                                    probs.append(f'default expiration {md["expiration"]} is not about one year after the default timestamp {md["timestamp"]}')
                        except Exception as ex:
                            probs.append(f'default expiration / timestamp not canonical UTC: {ex}')
                    if isinstance(md['type'], str) and md['type'] in C.SUPPORTED_DELEGATING_METADATA_TYPES:
                        c = CC.outcome_of(C.checkformat_delegating_metadata, S.wrap_as_signable(md))
                        if c['kind'] != 'ret':
                            probs.append(f'built metadata of supported type fails the checker: {c["cls"]} {c["msg"]:.80}')
            else:
                if not CC.documented(oc) or 'CCT_Error' in oc['mro']:
                    probs.append(f'argument error reported as {oc["cls"]}')
                from harness.c14 import _natural, _is_hex
                g = given
                tok = lambda x: x is None or (isinstance(x, str) and iso(x))
                dok = g['delegations'] is None or (isinstance(g['delegations'], dict) and all(isinstance(k, str) and isinstance(v, dict) and set(v) == {'pubkeys', 'threshold'}
                                                   and isinstance(v['pubkeys'], list) and all(_is_hex(x, 64) for x in v['pubkeys']) and len(set(v['pubkeys'])) == len(v['pubkeys']) and _natural(v['threshold'])
                                                   for k, v in g['delegations'].items()))
                if isinstance(g['metadata_type'], str) and dok and _natural(g['version']) and tok(g['timestamp']) and tok(g['expiration']):
                    probs.append(f'valid arguments refused: {oc["cls"]} {oc["msg"]:.80}')
        return {'outcome': oc, 'problems': probs}
    if sc == 'defaults':
        with CC.stdout_as(None):
            md1 = MC.build_delegating_metadata('key_mgr')
            md1['delegations']['pkg_mgr'] = {'pubkeys': ['ab' * 32], 'threshold': 1}
            md2 = MC.build_delegating_metadata('key_mgr')
        if md2['delegations'] != {}:
            probs.append('a second construction without delegations carries the delegation added to the first result')
        return {'outcome': {'kind': 'ret'}, 'problems': probs}
    if sc == 'root':
        thr = from_wire(case['rthr'])
        rs, ks = case.get('rshape', 'one'), case.get('kshape', 'one')
        mkl = lambda shape, k: {'one': [k], 'empty': [], 'tuple': (k,)}[shape]
        with CC.stdout_as(None):
            o1 = CC.outcome_of(MC.build_root_metadata, case['v'], mkl(rs, case['rk']), thr, mkl(ks, case['kk']), 1)
            o2 = CC.outcome_of(MC.build_root_metadata, case['v'] + 1, mkl(rs, case['rk']), thr, mkl(ks, case['kk']), 1)
            if o1['kind'] == 'ret' and o2['kind'] == 'ret':
                md1, md2 = from_wire(o1['value']), from_wire(o2['value'])
                if rs == 'tuple':
                    probs.append('a key list given as a tuple was accepted (and silently turned into something else)')
                for md in (md1, md2):
                    if md.get('type') != 'root' or sorted(md.get('delegations', {})) != ['key_mgr', 'root']:
                        probs.append('root metadata does not delegate exactly root and key_mgr')
                if not probs:
                    e1, e2 = S.wrap_as_signable(md1), S.wrap_as_signable(md2)
                    if CC.outcome_of(C.checkformat_delegating_metadata, e1)['kind'] != 'ret':
                        probs.append('built root metadata fails the checker')
                    elif thr == 1 and isinstance(thr, int) and rs == 'one':
                        CC.CRYPTO.install()
                        CC.CRYPTO.reset()
                        e2['signatures'] = {case['rk']: {'other_headers': case['oh'], 'signature': case['sig']}}
                        CC.CRYPTO.table[(bytes.fromhex(case['rk']), bytes.fromhex(case['sig']), CC.gpg_digest(C.canonserialize(md2), bytes.fromhex(case['oh'])))] = True
                        vr = CC.outcome_of(A.verify_root, e1, e2)
                        if vr['kind'] != 'ret':
                            probs.append(f'signed successor built by the constructor does not verify: {vr["cls"]} {vr["msg"]:.80}')
                oc = {'kind': 'ret'}
            else:
                oc = o1 if o1['kind'] != 'ret' else o2
                if not CC.documented(oc):
                    probs.append(f'argument error reported as {oc["cls"]}')
        return {'outcome': oc, 'problems': probs}
    raise ValueError(sc)


def agrees(case, obs):
    return 'outcome' in obs and CC.same_outcome(case.get('predicted'), obs['outcome'])


def judge(case, obs):
    return '; '.join(obs.get('problems', [])[:3]) or None


def units(tier):
    return [Unit('build_delegating_metadata', bdm_factory('b'), expect=('built', 'checker accepts', 'raises:TypeError', 'raises:ValueError'), max_witnesses=300),
            Unit('defaults are not shared', defaults_factory('df'), expect=('built twice',), max_witnesses=5),
            Unit('build_root_metadata', root_factory('r'), expect=('built', 'successor verifies', 'raises'), max_witnesses=100)]


BOUNDS = dict(build_delegating_metadata='type: free string <= 8 chars or any JSON kind; delegations: default / one role with a free name, <= 1 free key, threshold int / binary64 / str / a list / a string; version int / bool / binary64 / str / None; timestamp and expiration: default / free 3-character string (IsoOK abstracts strptime) / int / list; clock: fresh non-decreasing readings with arbitrary microseconds up to year 9000',
              build_root_metadata='version any int, one free root key and one free key_mgr key (<= 66 chars), root threshold int / binary64; successor check with one OpenPGP entry of free strings assumed valid')
OUTSIDE = 'clock beyond year 9000; datetime itself (isoformat / strptime are axiomatised: isoformat of a whole-second time + "Z" is accepted by strptime and parses back); more roles / keys'
ASSUMPTIONS = ['"about one year later" is checked, when both timestamp and expiration are defaulted, as 365 to 367 days (plus the time that passed between the two clock readings); a caller-supplied timestamp with a defaulted expiration is outside the statement', 'A2, A3']
