{
  "final": 0,
  "threshold": 0
} 0.0
}