#!/usr/bin/env python3
"""tools/sweep.py --checks C15,C14 [--seeds C15a,C15b | all] [--jobs 4] [--tier quick]
Run checks against seeded changes, each on its own scratch worktree of /repo (never on /repo itself)."""
import argparse, json, os, subprocess, sys, shutil, threading, concurrent.futures as cf
LOCK = threading.Lock()
HERE = os.path.dirname(os.path.dirname(os.path.abspath(__file__)))
ap = argparse.ArgumentParser()
ap.add_argument('--checks', default='C01,C02,C03,C04,C05,C06,C07,C08,C09,C10,C11,C12,C13,C14,C15,C16,C17,C18,C19')
ap.add_argument('--seeds', default='all')
ap.add_argument('--jobs', type=int, default=4)
ap.add_argument('--nproc', type=int, default=4)
ap.add_argument('--tier', default='quick')
ap.add_argument('--resume', action='store_true', help='skip seed/check pairs whose log in tools/sweeplogs is newer than tools/sweeplogs/.start')
ap.add_argument('--own', action='store_true', help='only run each seed against the check of its own property')
a = ap.parse_args()
MARK = os.path.join(HERE, 'tools', 'sweeplogs', '.start')
os.makedirs(os.path.dirname(MARK), exist_ok=True)
if not a.resume or not os.path.exists(MARK):
    open(MARK, 'w').write('x')
seeds = sorted(os.listdir(os.path.join(HERE, 'seeded'))) if a.seeds == 'all' else a.seeds.split(',')
checks = a.checks.split(',')
def run(seed):
    wt = f'/var/tmp/cct-mut-{seed}-{os.getpid()}'
    out = f'/var/tmp/cct-mut-out-{seed}-{os.getpid()}'
    with LOCK:
        subprocess.run(['git', '-C', '/repo', 'worktree', 'add', '--detach', wt, 'HEAD'], capture_output=True, check=True)
    res = {}
    try:
        subprocess.run(['git', '-C', wt, 'apply', os.path.join(HERE, 'seeded', seed, 'patch.diff')], check=True)
        for c in checks:
            if a.own:
                meta = json.load(open(os.path.join(HERE, 'seeded', seed, 'meta.json')))
                if c not in (meta.get('properties') or [meta['property']]):
                    continue
            lf = os.path.join(HERE, 'tools', 'sweeplogs', f'{seed}-{c}.log')
            if a.resume and os.path.exists(lf) and os.path.exists(MARK) and os.path.getmtime(lf) > os.path.getmtime(MARK) and 'SUMMARY' in open(lf).read():
                txt = open(lf).read()
                rc = 1 if 'VIOLATION property=' in txt else (2 if ('HARNESS-ERROR' in txt or 'ENGINE-MISMATCH' in txt) else 0)
                res[c] = (rc, ['(from earlier run)'] + [l for l in txt.splitlines() if l.startswith('  why')][:2])
                continue
            env = dict(os.environ, CCT_VERIF_REPO=wt, CCT_VERIF_OUT=out)
            p = subprocess.run([os.path.join(HERE, 'check'), c, '--tier', a.tier, '--nproc', str(a.nproc)], capture_output=True, text=True, env=env)
            lines = [l for l in p.stdout.splitlines() if l.startswith(('VIOLATION', '  why', 'INCONCLUSIVE', 'ENGINE-MISMATCH', 'HARNESS-ERROR', 'lemma')) and 'proved [' not in l or 'NOT proved' in l]
            res[c] = (p.returncode, lines[:8])
            os.makedirs(os.path.join(HERE, 'tools', 'sweeplogs'), exist_ok=True)
            open(os.path.join(HERE, 'tools', 'sweeplogs', f'{seed}-{c}.log'), 'w').write(p.stdout + '\n--stderr--\n' + p.stderr[-3000:])
    finally:
        with LOCK:
            subprocess.run(['git', '-C', '/repo', 'worktree', 'remove', '--force', wt], capture_output=True)
        shutil.rmtree(out, ignore_errors=True)
    return seed, res
with cf.ThreadPoolExecutor(a.jobs) as ex:
    for seed, res in ex.map(run, seeds):
        for c, (rc, lines) in res.items():
            tag = {0: 'missed', 1: 'CAUGHT', 2: 'harness-error'}.get(rc, f'rc={rc}')
            print(f'{seed:6s} {c:4s} {tag}')
            for l in lines:
                print('        ' + l[:220])
        sys.stdout.flush()
