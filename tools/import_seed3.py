#!/usr/bin/env python3
"""confirm and import the third round of sub-agent changes from /var/tmp/seed3 into seeded/<Cnn>{e,f}/"""
import json, os, shutil, subprocess, sys
HERE = os.path.dirname(os.path.dirname(os.path.abspath(__file__)))
props = {json.loads(l)['id']: json.loads(l) for l in open(os.path.join(HERE, 'properties.jsonl'))}
DESEL = ['--deselect', 'tests/test_root.py::test_sign_root_metadata_dict_via_gpg', '--deselect', 'tests/test_root.py::test_sign_root_metadata_via_gpg', '--deselect', 'tests/test_root.py::test_gpg_pubkey_in_ssl_format']
for pid in (sys.argv[1:] or sorted(props)):
    wt = f'/var/tmp/seed3/wt-{pid}'
    for v, letter in (('a', 'e'), ('b', 'f')):
        out = f'/var/tmp/seed3/out-{pid}/{v}'
        dst = os.path.join(HERE, 'seeded', pid + letter)
        if not os.path.exists(os.path.join(out, 'patch.diff')) or os.path.exists(dst):
            continue
        run = lambda *a, **k: subprocess.run(*a, capture_output=True, text=True, **k)
        run(['git', 'checkout', '-q', '--', '.'], cwd=wt); run(['git', 'clean', '-fdq'], cwd=wt)
        env = dict(os.environ, PYTHONPATH=wt)
        clean = run(['/venv/bin/python', os.path.join(out, 'demo.py')], cwd=wt, env=env, timeout=600).returncode
        ap = run(['git', 'apply', os.path.join(out, 'patch.diff')], cwd=wt)
        if ap.returncode:
            print(pid, v, 'APPLY-FAIL', ap.stderr[:200]); continue
        pt = run(['/venv/bin/python', '-m', 'pytest', '-q', '-p', 'no:cacheprovider'] + DESEL, cwd=wt, timeout=1800)
        passed = [l for l in pt.stdout.splitlines() if ' passed' in l][-1:] or ['?']
        patched = run(['/venv/bin/python', os.path.join(out, 'demo.py')], cwd=wt, env=env, timeout=600).returncode
        run(['git', 'checkout', '-q', '--', '.'], cwd=wt); run(['git', 'clean', '-fdq'], cwd=wt)
        ok = pt.returncode == 0 and clean == 0 and patched == 1
        print(pid + letter, 'tests_rc=%d (%s) demo_clean_rc=%d demo_patched_rc=%d' % (pt.returncode, passed[0].strip(), clean, patched), 'CONFIRMED' if ok else 'REJECTED')
        if not ok:
            continue
        os.makedirs(dst)
        for f in ('patch.diff', 'demo.py', 'notes.md'):
            if os.path.exists(os.path.join(out, f)):
                shutil.copy(os.path.join(out, f), os.path.join(dst, f))
        notes = open(os.path.join(out, 'notes.md')).read() if os.path.exists(os.path.join(out, 'notes.md')) else ''
        meta = dict(id=pid + letter, property=pid, property_title=props[pid]['title'],
                    origin='independent sub-agent, third round: given only the property text, a scratch worktree of /repo at dbc4cba and one-line summaries of the earlier ideas to avoid',
                    needs_to_manifest=notes[:1800], base_commit='dbc4cba',
                    confirmed=dict(how='tools/import_seed3.py in the scratch worktree: demo on clean tree, apply patch, pinned test suite (the 3 always-fail securesystemslib tests deselected), demo on patched tree, revert',
                                   result='tests_rc=%d (%s) demo_clean_rc=%d demo_patched_rc=%d' % (pt.returncode, passed[0].strip(), clean, patched)),
                    detected_by=[])
        json.dump(meta, open(os.path.join(dst, 'meta.json'), 'w'), indent=1)
