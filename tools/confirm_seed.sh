#!/bin/sh
# confirm one candidate seeded change: tools/confirm_seed.sh <Cxx> <a|b>   (uses /tmp/seed/wt-Cxx, /tmp/seed/out-Cxx)
P=$1; V=$2; WT=/tmp/seed/wt-$P; OUT=/tmp/seed/out-$P/$V
cd $WT || exit 9
git checkout -q -- . ; git clean -fdq
PYTHONPATH=$WT /venv/bin/python $OUT/demo.py > $OUT/demo.clean.log 2>&1; CLEAN=$?
git apply $OUT/patch.diff || { echo "$P/$V APPLY-FAIL"; exit 1; }
/venv/bin/python -m pytest -q -p no:cacheprovider -x --deselect tests/test_root.py::test_sign_root_metadata_dict_via_gpg --deselect tests/test_root.py::test_sign_root_metadata_via_gpg --deselect tests/test_root.py::test_gpg_pubkey_in_ssl_format > $OUT/pytest.log 2>&1; PT=$?
PASSED=$(grep -Eo "[0-9]+ passed" $OUT/pytest.log | tail -1)
PYTHONPATH=$WT /venv/bin/python $OUT/demo.py > $OUT/demo.patched.log 2>&1; PATCHED=$?
git checkout -q -- . ; git clean -fdq
echo "$P/$V tests_rc=$PT ($PASSED) demo_clean_rc=$CLEAN demo_patched_rc=$PATCHED"
