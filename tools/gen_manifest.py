#!/usr/bin/env python3
"""regenerate /verif/MANIFEST.json from the table below (one entry per property that has a check)"""
import json
import os

HERE = os.path.dirname(os.path.dirname(os.path.abspath(__file__)))
TECH = ('bounded symbolic execution of the real functions (own AST interpreter over z3; every feasible path enumerated, '
        'property query per path must be unsat); counterexamples replayed on the real code before reporting')
NOTE = ('Trusted base: the pysym interpreter and its hand-written models of Python builtins on symbolic operands (validated on every run by '
        'replaying path witnesses on the real code: traces_validated_against_impl), z3 {z3}, the stubs listed in evidence.coverage.stubs. ')

CHECKS = {
    'C01': dict(text='Model checking within bounds: verify_signable is executed symbolically on an envelope with 2 (quick) / 3 (thorough) signature entries under free 66-character key strings over all of Unicode, free 130-character signature strings, optional OpenPGP headers, a junk entry, 2/3 free authorised keys, int/bool/binary64 thresholds and both modes; ed25519 verification is an uninterpreted predicate. For every feasible path z3 shows `accepted => threshold is a positive int and at least that many distinct authorised canonical keys have Valid signatures over exactly the canonical payload (raw) / the RFC 4880 digest (OpenPGP)`. This is the right level because the property is a forall over a product space of entry states that no sample covers.',
                note='A2: Valid is uninterpreted (unforgeability of ed25519 is not claimed); A3: canonical serialisation is an injective function of the JSON value (checked by C07); leaf validators are substituted by their grammar only when the lemma was proved in the same run. Outside: more entries/keys than the bounds.', design='5 C01'),
    'C02': dict(text='Model checking within bounds, converse direction of C01 on the same symbolic execution: on every rejecting path z3 shows that NOT (arguments valid and at least threshold distinct authorised keys have well-formed signatures Valid in the requested mode), for every junk entry (free 3-character key over all of Unicode incl. lone surrogates, any JSON value) and every standard-output encoding (utf-8 strict / ascii / surrogateescape, a symbolic configuration variable in the print stub).',
                note='As C01. "Everything the library signs verifies" is decided in C09 with the Sign/Valid axiom; shipped fixtures are outside the solver (they are exercised by the repository\'s own tests). Import history of the process other than "only the package imported" is not a solver variable.', design='5 C02'),
    'C03': dict(text='Model checking within bounds: verify_root is executed symbolically on two typed root documents (2 roles with free names so that "root" may be missing, free keys, thresholds, declared types, versions int/bool/binary64) and a symbolic OpenPGP/raw signature map; z3 decides on every path `returns <=> both well formed, both of type root delegating root, version exactly +1 in exact arithmetic, trusted rule met, own rule met`. Float versions keep IEEE-754 semantics in the code under test, so 2**53 rounding is inside.',
                note='A2, A3. The delegating-metadata checker is replaced by the C14 schema on a template only after `checker accepts <=> schema` was proved for that very template in the same run (lemma units, counted in the evidence). The <= direction is asserted for int-typed thresholds. binary64 holes: NaN, +-inf, finite |x| < 2**62.', design='5 C03'),
    'C04': dict(text='Model checking of (1) the inductive step from an arbitrary trusted root (no history enumerated: accepted => offer is well-formed root metadata delegating root, version +1, signed by a threshold of the trusted root keys) and (2) a two-offer history executed in one interpreter state in which module-level state written by the first call is visible to the second and the signature strings of the offers may coincide: every verdict must equal the single-call characterisation. Arbitrary-length histories follow by induction on paper; each step is decided by z3.',
                note='A2, A3; persistence between steps is modelled by the file-system stub (thorough tier) under A3; real disk is C08. Histories longer than 2 offers are covered by the inductive step plus the statelessness check only.', design='5 C04'),
    'C05': dict(text='Model checking within bounds: verify_delegation executed symbolically with a free role name, trusted metadata with 2 roles of free names and independent key lists / thresholds, an untrusted envelope that is or is not delegating metadata with a free declared type and whose own delegations list further keys; z3 decides `accepted => trusted well formed, role of exactly that name delegated, that role\'s keys/threshold met, type = role`, the converse, and that an undelegated role is reported as UnknownRoleError.',
                note='A2, A3; checker lemma as in C03. Untrusted payloads are dictionaries.', design='5 C05'),
    'C06': dict(text='Model checking within bounds, relational: (1) on every accepting path the signed part is not well-formed delegating metadata of another type; (2) after an acceptance the same envelope stripped to the entries that count under the oracle is executed again in the same path and must be accepted too -- so nothing in the attacker-controlled signature map (one junk entry of any JSON kind under a free key is in the template) can turn a rejection into an acceptance.',
                note='A2, A3; checker lemma as in C03.', design='5 C06'),
    'C12': dict(text='Model checking within bounds of three obligations: (1) write barrier -- on every path of the three verifiers no store reaches an object reachable from an argument; (2) call-order independence -- sequences of three verify_signable calls over related envelopes (free, possibly coinciding key / signature strings; payloads equal or different; modes independent; and a variant in which the payload object is edited in place between calls) are executed in ONE interpreter state in which module-level state written by an earlier call is visible to later ones, and every verdict must satisfy the single-call soundness/completeness oracle on its own arguments; (3) wrap_as_signable: for payloads of every top-level JSON type with nested containers no mutable object is reachable from both argument and envelope and the copy equals the original.',
                note='Thread interleavings, hash seed, locale, working directory and import history are NOT solver variables and are not claimed (Python threads are not encoded; the write barrier supports but does not prove schedule independence). id() is modelled as identity of live objects (no address re-use). A2, A3.', design='5 C12'),
    'C13': dict(text='Model checking within bounds: all 24 public validators of common.py and the two single-signature primitives are executed symbolically on a generic nested value (every JSON kind incl. inf/nan/huge ints at every position to depth 1 (quick) / 2 (thorough), plus a pool of concrete type-confusion values), the three verifiers on their templates with arguments of any kind; on every path the outcome must be a return or an exception of the documented families, and insufficient signatures / undelegated role / type or version mismatch on well-formed arguments must be SignatureError / UnknownRoleError / MetadataVerificationError.',
                note='Termination is observed only on the bounded templates (all loops range over the inputs). Python values outside the pool (e.g. objects with hostile __eq__), deeper nesting and recursion-limit effects are outside the claim. A2, A3, checker lemma as in C03.', design='5 C13'),
    'C14': dict(text='Model checking within bounds: checkformat_delegating_metadata and all validators it calls are executed symbolically on a template in which every JSON position is symbolic at once (presence, type tag over all JSON kinds incl. binary64, free strings, duplicate keys, extra fields); on each of the ~6 300 (quick) feasible paths z3 shows `accepts <=> Schema` where Schema is transcribed from the property statement, and that rejections are TypeError/ValueError.',
                note='datetime.strptime is the definition of a well-formed UTC time on both sides (uninterpreted IsoOK). "integer >= 1" = integral numeric value. The third clause (verifiers never hit an internal error on accepted documents) is checked in C13 on the verifier templates.', design='5 C14'),
    'C15': dict(text='Model checking within bounds: each leaf validator (hex string / key / signature / fingerprint, signature entries, key lists) is executed symbolically on an unrolled string over all 0x110000 code points (lengths up to 2 beyond every boundary the grammar mentions), every other JSON kind and a pool of type-confusion values; z3 shows `accepts <=> grammar`, `predicate form == raising form`, injectivity of accepted key spellings, duplicate-freeness by bytes.',
                note='Unicode predicates (isalnum, lower, isdecimal, isspace, ...) are class tables extracted from the running interpreter; strings longer than 66/130/42/12(40) characters are outside the claim.', design='5 C15'),
}


def main():
    import z3
    ids = [json.loads(l)['id'] for l in open(os.path.join(HERE, 'properties.jsonl'))]
    pending = json.load(open(os.path.join(HERE, 'tools', 'not_applicable.json')))
    checks = []
    for i in ids:
        if i not in CHECKS:
            continue
        c = CHECKS[i]
        checks.append(dict(property_id=i, quick_cmd=f'./check {i} --tier quick', thorough_cmd=f'./check {i} --tier thorough',
                           evidence_file=f'evidence/{i}.json', replay_cmd_template='./check replay {path}', engine=c.get('engine', 'pysym'),
                           level_claimed=dict(category=c.get('category', 'model_checking'), text=c['text'], design_ref='DESIGN.md section ' + c['design']),
                           level_note=NOTE.format(z3=z3.get_version_string()) + c['note'], technique=c.get('technique', TECH)))
    na = [dict(property_id=i, reason=pending.get(i, 'check not built yet (work in progress; see DESIGN.md for the plan)')) for i in ids if i not in CHECKS]
    m = dict(version=1, setup_cmd='./setup.sh',
             hooks=dict(guard='CCT_VERIF', enable='no hook exists: the checks interpret the current source of /repo symbolically and replay on the unmodified package', baseline_off_cmd='cd /repo && /venv/bin/python -m pytest -ra -q -p no:cacheprovider --timeout=900 --continue-on-collection-errors', source_commits=[], add_only=True),
             engines=[dict(name='pysym', path='pysym/', serves_properties=[i for i in ids if i in CHECKS and CHECKS[i].get('engine', 'pysym') == 'pysym'],
                           kind_free_text='AST-level symbolic interpreter for the repository\'s Python over z3 (DART-style re-execution, 16 worker processes), environment stubs, replay of witnesses and counterexamples on the real code'),
                      dict(name='crosshair', path='xhair/', serves_properties=[i for i in ids if i in CHECKS and CHECKS[i].get('engine') == 'crosshair'],
                           kind_free_text='CrossHair 0.0.110 (symbolic execution of the real byte-code with z3), time-budgeted counterexample search')],
             checks=checks, notes='See DESIGN.md. Genuine defects found on the pinned tree were repaired by fix: commits in /repo and are listed in known_findings.json (status fixed).',
             not_applicable=na)
    json.dump(m, open(os.path.join(HERE, 'MANIFEST.json'), 'w'), indent=1)
    print(len(checks), 'checks;', len(na), 'not claimed')


if __name__ == '__main__':
    main()
