#!/bin/sh
# tools/run_all.sh [quick|thorough] [ids...]: run the registered checks one after the other on /repo, summarise
TIER=${1:-quick}; shift
IDS=${@:-C01 C02 C03 C04 C05 C06 C07 C08 C09 C10 C11 C12 C13 C14 C15 C16 C17 C18 C19}
cd "$(dirname "$0")/.."
mkdir -p tools/runlogs
for i in $IDS; do
  s=$(date +%s)
  ./check $i --tier $TIER > tools/runlogs/$i.$TIER.log 2>&1; rc=$?
  e=$(date +%s)
  echo "$i rc=$rc $((e-s))s $(grep SUMMARY tools/runlogs/$i.$TIER.log | cut -c1-220)"
done
