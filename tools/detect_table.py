#!/usr/bin/env python3
"""Collect the results of tools/sweep.py (tools/sweeplogs/<seed>-<check>.log) into
  * seeded/<seed>/meta.json  (fields detected_by / flagged_by / not_detected_by)
  * the table between the markers <!-- DETECT-TABLE --> ... <!-- /DETECT-TABLE --> in DESIGN.md

CAUGHT        = the check exited 1 with a VIOLATION line whose counterexample reproduced on the modified tree
flagged       = the check exited 2 (ENGINE-MISMATCH / inconclusive reachability): the change was noticed (the run is not
                green) but no confirmed counterexample was produced -- this does not count as a detection
missed        = the check exited 0 on the modified tree"""
import glob
import json
import os
import re

HERE = os.path.dirname(os.path.dirname(os.path.abspath(__file__)))
res = {}
for lf in sorted(glob.glob(os.path.join(HERE, 'tools', 'sweeplogs', '*.log'))):
    m = re.fullmatch(r'(C\d\d[a-g]|D\d)-(C\d\d)\.log', os.path.basename(lf))
    if not m:
        continue
    seed, chk = m.groups()
    txt = open(lf, errors='replace').read()
    if 'SUMMARY' not in txt and 'HARNESS-ERROR' not in txt and 'xhair' not in txt and 'VIOLATION' not in txt:
        continue
    if 'VIOLATION property=' in txt:
        tag = 'CAUGHT'
    elif 'HARNESS-ERROR' in txt or 'ENGINE-MISMATCH' in txt:
        tag = 'flagged'
    else:
        tag = 'missed'
    why = next((l.strip()[5:].strip() for l in txt.splitlines() if l.strip().startswith('why:')), '')
    res.setdefault(seed, {})[chk] = (tag, why)

rows = []
for d in sorted(os.listdir(os.path.join(HERE, 'seeded'))):
    mp = os.path.join(HERE, 'seeded', d, 'meta.json')
    if not os.path.exists(mp):
        continue
    meta = json.load(open(mp))
    r = res.get(d, {})
    meta['detected_by'] = sorted(c for c, (t, _) in r.items() if t == 'CAUGHT')
    meta['flagged_by'] = sorted(c for c, (t, _) in r.items() if t == 'flagged')
    meta['not_detected_by'] = sorted(c for c, (t, _) in r.items() if t == 'missed')
    json.dump(meta, open(mp, 'w'), indent=1, sort_keys=True)
    own = meta.get('property') or (meta.get('properties') or ['?'])[0]
    summary = (meta.get('summary') or meta.get('title') or (meta.get('needs_to_manifest') or '').strip().split('\n')[0])
    summary = re.sub(r'^(#\s*)?(C\d\d\s+)?[Vv]ariant [ab]\s*[-:]\s*', '', summary).replace('|', '/').replace('\n', ' ')[:140]
    why = next((w for c, (t, w) in sorted(r.items()) if t == 'CAUGHT' and w), '').replace('|', '/')[:120]
    rows.append(f"| {d} | {own} | {summary} | {', '.join(meta['detected_by']) or '-'} | {', '.join(meta['flagged_by']) or '-'} | {', '.join(meta['not_detected_by']) or '-'} | {why} |")

table = ['| seed | property | change | caught by (VIOLATION, replayed) | flagged only (exit 2) | run, not caught | first confirmed reason |', '|---|---|---|---|---|---|---|'] + rows
caught = sum(1 for d in rows if '| - | ' not in d.split('|')[4:5][0] and d.split('|')[4].strip() != '-')
p = os.path.join(HERE, 'DESIGN.md')
s = open(p).read()
a, b = '<!-- DETECT-TABLE -->', '<!-- /DETECT-TABLE -->'
if a in s and b in s:
    s = s[:s.index(a) + len(a)] + '\n' + '\n'.join(table) + f'\n\n{caught} of {len(rows)} seeded changes are caught by at least one check with a replayed counterexample.\n' + s[s.index(b):]
    open(p, 'w').write(s)
print('\n'.join(table))
print(caught, 'of', len(rows))
